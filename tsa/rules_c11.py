"""C11 - the compiler emits exactly the instructions written, in the documented encoding
(the clauses visible in the shape of the code)."""
from __future__ import annotations
import ast
import re
from .report import Report, AnalysisError
from .summary import World, tape_reads, match_tables, _pattern_labels
from .model import dotted
from . import linear as L
from .rules_c12 import norm_token

LEVEL = 'other'
RELP = 'tapescript/parsing.py'
BLOCK_PARSERS = {'parse_if': ('OP_IF', 'END_IF'), 'parse_else': (None, 'END_IF'), 'parse_try': ('OP_TRY_EXCEPT', 'END_TRY'),
                 'parse_except': (None, 'END_EXCEPT'), 'parse_def': ('OP_DEF', 'END_DEF'),
                 'parse_loop': ('OP_LOOP', 'END_LOOP')}


# ---------------------------------------------------------------------------
# shape derivation of the encoder helpers (structured abstract interpretation)
# ---------------------------------------------------------------------------

class _Part:
    def __init__(self, kind, width=None, var=None, value=None, txt='', maxlen=None):
        self.kind = kind      # fixed prefix var unknown
        self.width = width
        self.var = var
        self.value = value
        self.txt = txt
        self.maxlen = maxlen  # prefix parts: upper bound on the payload length established by guards on this path

    def __repr__(self):
        return f'{self.kind}:{self.width}:{self.var}'


class _Derive:
    """Walks a helper and collects, per non-raising path, the parts appended to the
    result list.  Facts from guards (`len(x) == N`) are tracked along the path."""

    def __init__(self, w: World, fi):
        self.w = w
        self.fi = fi
        self.exc = w.cfg(fi).exc
        self.results: list[list[_Part]] = []
        self.domains: list[tuple] = []      # (variable, lo, hi): one-byte signed operands whose range a guard spells out
        self.list_var = None

    def run(self):
        self._block(self.fi.node.body, {'parts': [], 'facts': {}, 'defs': {}, 'done': False}, top=True)
        return self.results

    # state: parts list, facts dict expr-text -> const, defs var -> expr
    def _fork(self, st):
        return {'parts': list(st['parts']), 'facts': dict(st['facts']), 'defs': dict(st['defs']),
                'done': st['done'], 'ver': dict(st.get('ver', {})), 'snap': dict(st.get('snap', {})),
                'domains': list(st.get('domains', []))}

    def _block(self, stmts, st, top=False):
        """Returns list of states after the block (states with done=True have returned)."""
        states = [st]
        for s in stmts:
            nxt = []
            for cur in states:
                if cur['done']:
                    nxt.append(cur)
                    continue
                nxt += self._stmt(s, cur)
            states = nxt
            if len(states) > 400:
                raise AnalysisError(f'{self.fi.key}: too many encoder paths')
        return states

    def _stmt(self, s, st):
        if isinstance(s, ast.Expr) and isinstance(s.value, ast.Constant):
            return [st]
        if isinstance(s, ast.Expr) and isinstance(s.value, ast.Call):
            c = s.value
            cls = self.exc.guard_class(self.fi.module.name, c)
            if cls and c.args:
                self._learn(c.args[0], st, True)
                return [st]
            if isinstance(c.func, ast.Attribute) and c.func.attr == 'append' and isinstance(c.func.value, ast.Name):
                if self.list_var is None or c.func.value.id == self.list_var:
                    self.list_var = c.func.value.id
                    for p in self._classify(c.args[0], st):
                        st2 = st
                        st2['parts'].append(p)
                    return [st]
            return [st]
        if isinstance(s, ast.Assert):
            self._learn(s.test, st, True)
            return [st]
        if isinstance(s, (ast.Assign, ast.AnnAssign, ast.AugAssign)):
            if isinstance(s, ast.Assign) and len(s.targets) == 1 and isinstance(s.targets[0], ast.Name):
                name = s.targets[0].id
                # invalidate facts about the rebound variable
                for k in [k for k in st['facts'] if _mentions(k, name)]:
                    del st['facts'][k]
                st['defs'][name] = s.value
                # versions of the names the definition mentions, to resolve temporaries soundly later
                ver = st.setdefault('ver', {})
                ver[name] = ver.get(name, 0) + 1
                st.setdefault('snap', {})[name] = {n.id: ver.get(n.id, 0) for n in ast.walk(s.value)
                                                    if isinstance(n, ast.Name) and n.id != name}
                if isinstance(s.value, ast.List) and not s.value.elts and self.list_var is None:
                    pass
            elif isinstance(s, ast.AugAssign) and isinstance(s.target, ast.Name):
                st['defs'].pop(s.target.id, None)
            return [st]
        if isinstance(s, ast.If):
            a = self._fork(st)
            b = self._fork(st)
            self._learn(s.test, a, True)
            self._learn(s.test, b, False)
            out = []
            if not a.get('dead'):
                out += self._block(s.body, a)
            if not b.get('dead'):
                out += self._block(s.orelse, b)
            return out
        if isinstance(s, ast.Match):
            out = []
            for c in s.cases:
                out += self._block(c.body, self._fork(st))
            has_wild = any(isinstance(c.pattern, ast.MatchAs) and c.pattern.pattern is None for c in s.cases)
            if not has_wild:
                # a dominating guard `subject in (..)` whose values are all case labels closes the match
                labels = set()
                for c in s.cases:
                    try:
                        labels |= set(_pattern_labels(c.pattern))
                    except AnalysisError:
                        pass
                dom = st['facts'].get('in:' + self._key(s.subject, st))
                if not (dom is not None and set(dom) <= labels):
                    out.append(self._fork(st))
            return out
        if isinstance(s, ast.For):
            n = self._iter_count(s.iter, st)
            if n is None:
                raise AnalysisError(f'{self.fi.key}: loop count of `for {ast.unparse(s.target)} in '
                                    f'{ast.unparse(s.iter)}` not constant')
            states = [st]
            for _ in range(n):
                nxt = []
                for cur in states:
                    if cur['done']:
                        nxt.append(cur)
                        continue
                    c2 = self._fork(cur)
                    for nm in [x.id for x in ast.walk(s.target) if isinstance(x, ast.Name)]:
                        c2['defs'].pop(nm, None)
                        for k in [k for k in c2['facts'] if _mentions(k, nm)]:
                            del c2['facts'][k]
                    nxt += self._block(s.body, c2)
                states = nxt
            return states
        if isinstance(s, ast.Return):
            v = s.value
            parts = None
            if isinstance(v, ast.Tuple) and len(v.elts) == 2:
                payload = v.elts[1]
                if isinstance(payload, ast.Name) and (self.list_var is None or payload.id == self.list_var):
                    parts = st['parts']
                elif isinstance(payload, ast.Call) and dotted(payload.func) == 'tuple' and payload.args and \
                        isinstance(payload.args[0], ast.Name):
                    parts = st['parts']
                elif isinstance(payload, (ast.List, ast.Tuple)):
                    parts = []
                    for e in payload.elts:
                        parts += self._classify(e, st)
            if parts is None:
                # delegation to another helper
                if isinstance(v, ast.Call) and isinstance(v.func, ast.Name) and v.func.id.startswith('_get_'):
                    sub = _Derive(self.w, self.w.repo.func('parsing', v.func.id)).run()
                    for r in sub:
                        self.results.append(list(r))
                    st['done'] = True
                    return [st]
                raise AnalysisError(f'{self.fi.key}: unrecognised return `{ast.unparse(s)[:60]}`')
            self.results.append(list(parts))
            self.domains += [d for d in st.get('domains', []) if d not in self.domains]
            st['done'] = True
            return [st]
        if isinstance(s, ast.Raise):
            st['done'] = True
            return [st]
        if isinstance(s, ast.Pass):
            return [st]
        raise AnalysisError(f'{self.fi.key}: unrecognised statement `{ast.unparse(s)[:50]}` in encoder')

    def _iter_count(self, it, st):
        e = it
        if isinstance(e, ast.Name) and e.id in st['defs']:
            e = st['defs'][e.id]
        if isinstance(e, ast.Subscript) and isinstance(e.slice, ast.Slice) and e.slice.lower is None and \
                isinstance(e.slice.upper, ast.Constant) and isinstance(e.slice.upper.value, int):
            return e.slice.upper.value
        if isinstance(e, (ast.List, ast.Tuple)):
            return len(e.elts)
        if isinstance(e, ast.Call) and dotted(e.func) == 'range' and len(e.args) == 1 and \
                isinstance(e.args[0], ast.Constant):
            return e.args[0].value
        return None

    def _key(self, a, st) -> str:
        """Text that identifies what is being tested: a plain local standing for a call expression
        (`prefix = val[0].lower()`) is that expression, as long as its inputs were not rebound."""
        e = self._through_temp(a, st) if isinstance(a, ast.Name) else a
        return ast.unparse(e)

    def _learn(self, test, st, truth):
        if isinstance(test, ast.BoolOp) and isinstance(test.op, ast.And) and truth:
            for v in test.values:
                self._learn(v, st, True)
            return
        if isinstance(test, ast.BoolOp) and isinstance(test.op, ast.Or) and not truth:
            for v in test.values:
                self._learn(v, st, False)
            return
        if isinstance(test, ast.UnaryOp) and isinstance(test.op, ast.Not):
            self._learn(test.operand, st, not truth)
            return
        if isinstance(test, ast.Compare) and len(test.ops) > 1 and truth:
            # a <= x < b : each link holds
            terms = [test.left] + list(test.comparators)
            for i, o in enumerate(test.ops):
                self._learn(ast.Compare(left=terms[i], ops=[o], comparators=[terms[i + 1]]), st, True)
            return
        if isinstance(test, ast.Compare) and len(test.ops) == 1:
            op = test.ops[0]
            a, b = test.left, test.comparators[0]
            # integer bounds of a plain variable: lo <= x, x <= hi (either way round)
            def _ival(e):
                if isinstance(e, ast.Constant) and isinstance(e.value, int) and not isinstance(e.value, bool):
                    return e.value
                if isinstance(e, ast.UnaryOp) and isinstance(e.op, ast.USub) and isinstance(e.operand, ast.Constant) and \
                        isinstance(e.operand.value, int):
                    return -e.operand.value
                return None
            if truth:
                if isinstance(b, ast.Name) and _ival(a) is not None and isinstance(op, (ast.LtE, ast.Lt)):
                    st['facts']['>=' + b.id] = _ival(a) + (1 if isinstance(op, ast.Lt) else 0)
                if isinstance(a, ast.Name) and _ival(b) is not None and isinstance(op, (ast.GtE, ast.Gt)):
                    st['facts']['>=' + a.id] = _ival(b) + (1 if isinstance(op, ast.Gt) else 0)
                if isinstance(b, ast.Name) and _ival(a) is not None and isinstance(op, (ast.GtE, ast.Gt)):
                    st['facts']['<=' + b.id] = _ival(a) - (1 if isinstance(op, ast.Gt) else 0)
            if isinstance(op, ast.In) and truth and isinstance(b, (ast.Tuple, ast.List, ast.Set)) and \
                    all(isinstance(e, ast.Constant) for e in b.elts):
                st['facts']['in:' + self._key(a, st)] = tuple(e.value for e in b.elts)
            if isinstance(op, (ast.Eq, ast.NotEq)) and isinstance(b, ast.Constant) and isinstance(b.value, str):
                k = 'in:' + self._key(a, st)
                holds = truth if isinstance(op, ast.Eq) else not truth
                if holds:
                    if k in st['facts'] and b.value not in st['facts'][k]:
                        st['dead'] = True          # contradicts what a guard established
                    st['facts'][k] = (b.value,)
                elif k in st['facts']:
                    rest = tuple(v for v in st['facts'][k] if v != b.value)
                    st['facts'][k] = rest
                    if not rest:
                        st['dead'] = True          # every admitted value was tested and excluded: unreachable
            if isinstance(b, ast.Constant) and isinstance(b.value, int):
                if (isinstance(op, ast.Eq) and truth) or (isinstance(op, ast.NotEq) and not truth):
                    st['facts'][ast.unparse(a)] = b.value
                if isinstance(op, ast.LtE) and truth:
                    st['facts']['<=' + ast.unparse(a)] = b.value
                if isinstance(op, ast.Lt) and truth:
                    st['facts']['<=' + ast.unparse(a)] = b.value - 1

    def _len_fact(self, e, st):
        """Known byte length of expression e from facts, or None."""
        txt = ast.unparse(e)
        f = st['facts']
        if f'len({txt})' in f:
            return f[f'len({txt})']
        # resolve a name through its definition
        if isinstance(e, ast.Name) and e.id in st['defs']:
            d = st['defs'][e.id]
            if not (isinstance(d, ast.Name) and d.id == e.id):
                return self._static_len(d, st)
        return None

    def _static_len(self, e, st):
        if isinstance(e, ast.Constant) and isinstance(e.value, bytes):
            return len(e.value)
        # the signed codec gives exactly one byte for [-128, 127]
        if isinstance(e, ast.Call) and dotted(e.func) == 'int_to_bytes' and len(e.args) == 1 and isinstance(e.args[0], ast.Name):
            lo = st['facts'].get('>=' + e.args[0].id)
            hi = st['facts'].get('<=' + e.args[0].id)
            if lo is not None and hi is not None and -128 <= lo and hi <= 127:
                st.setdefault('domains', []).append(('s', e.args[0].id, lo, hi))
                return 1
        if isinstance(e, ast.Call) and dotted(e.func) == 'struct.pack' and e.args and \
                isinstance(e.args[0], ast.Constant):
            import struct
            try:
                return struct.calcsize(e.args[0].value)
            except Exception:
                return None
        if isinstance(e, ast.Call) and isinstance(e.func, ast.Attribute) and e.func.attr == 'to_bytes' and e.args \
                and isinstance(e.args[0], ast.Constant):
            return e.args[0].value
        if isinstance(e, ast.Call) and dotted(e.func) == 'bytes.fromhex' and e.args:
            a = e.args[0]
            f = st['facts']
            # fromhex(val[1:]) with len(val) == N   or  len(val[1:]) == M
            if isinstance(a, ast.Subscript) and isinstance(a.slice, ast.Slice) and a.slice.upper is None and \
                    isinstance(a.slice.lower, ast.Constant):
                base = ast.unparse(a.value)
                k = a.slice.lower.value
                if f'len({base})' in f:
                    n = f[f'len({base})'] - k
                    return n // 2 if n % 2 == 0 else None
                if f'len({ast.unparse(a)})' in f:
                    n = f[f'len({ast.unparse(a)})']
                    return n // 2 if n % 2 == 0 else None
            return None
        if isinstance(e, ast.IfExp):
            # val if len(val) == 1 else b'\x00'
            a = self._fork(st)
            b = self._fork(st)
            self._learn(e.test, a, True)
            self._learn(e.test, b, False)
            la = self._len_of(e.body, a)
            lb = self._len_of(e.orelse, b)
            return la if la is not None and la == lb else None
        if isinstance(e, ast.Name):
            return self._len_fact(e, st)
        return None

    def _len_of(self, e, st):
        txt = ast.unparse(e)
        if f'len({txt})' in st['facts']:
            return st['facts'][f'len({txt})']
        return self._static_len(e, st)

    def _through_temp(self, e, st):
        """A plain local that was assigned a call expression and whose inputs have not been rebound since
        stands for that expression (`t = len(v).to_bytes(1, 'big'); args.append(t)`)."""
        hops = 0
        while isinstance(e, ast.Name) and hops < 3:
            d = st['defs'].get(e.id)
            snap = st.get('snap', {}).get(e.id)
            ver = st.get('ver', {})
            if not isinstance(d, ast.Call) or snap is None or any(ver.get(k, 0) != v for k, v in snap.items()):
                break
            if any(isinstance(n, ast.Name) and n.id == e.id for n in ast.walk(d)):
                break               # self-referential rebinding (val = f(val)): keep the variable identity
            e = d
            hops += 1
        return e

    def _classify(self, e, st) -> list[_Part]:
        e2 = self._through_temp(e, st)
        if e2 is not e:
            r = self._classify_core(e2, st)
            if r and r[0].kind in ('prefix', 'fixed'):
                return r
        return self._classify_core(e, st)

    def _classify_core(self, e, st) -> list[_Part]:
        # len(V).to_bytes(k, 'big')  -> prefix for V
        if isinstance(e, ast.Call) and isinstance(e.func, ast.Attribute) and e.func.attr == 'to_bytes' and e.args \
                and isinstance(e.args[0], ast.Constant) and isinstance(e.args[0].value, int):
            k = e.args[0].value
            order = e.args[1].value if len(e.args) > 1 and isinstance(e.args[1], ast.Constant) else None
            for kw in e.keywords:
                if kw.arg == 'byteorder' and isinstance(kw.value, ast.Constant):
                    order = kw.value.value
            recv = e.func.value
            if isinstance(recv, ast.Name) and recv.id in st['defs']:
                d = st['defs'][recv.id]
                if isinstance(d, ast.Call) and dotted(d.func) == 'len':
                    recv = d
            signed = any(kw.arg == 'signed' for kw in e.keywords)
            if order != 'big' or signed:
                return [_Part('unknown', txt='non-big-endian or signed length prefix')]
            if isinstance(recv, ast.Call) and dotted(recv.func) == 'len' and recv.args:
                v = ast.unparse(recv.args[0])
                return [_Part('prefix', width=k, var=v, maxlen=st['facts'].get(f'<=len({v})'))]
            if isinstance(recv, ast.Constant) and isinstance(recv.value, int):
                return [_Part('prefix', width=k, value=recv.value)]
            if isinstance(e.func.value, ast.Name):
                nm = e.func.value.id
                st.setdefault('domains', []).append((f'u{k}', nm, st['facts'].get('>=' + nm), st['facts'].get('<=' + nm)))
            return [_Part('fixed', width=k)]
        if isinstance(e, ast.Constant) and isinstance(e.value, bytes) and 1 <= len(e.value) <= 2:
            # a literal that may be the length prefix of the fixed-width part that follows (`b'\\x04'` before a float)
            p = _Part('prefix', width=len(e.value), value=int.from_bytes(e.value, 'big'))
            p.txt = 'literal'
            return [p]
        n = self._len_of(e, st)
        if n is not None:
            return [_Part('fixed', width=n, var=ast.unparse(e))]
        if isinstance(e, ast.Name):
            d = st['defs'].get(e.id)
            # still bound to a source symbol (a str): b''.join raises on this path
            if d is None and e.id in self.fi.params:
                return [_Part('str', var=e.id)]
            if isinstance(d, ast.Subscript) and isinstance(d.value, ast.Name) and d.value.id in self.fi.params:
                return [_Part('str', var=e.id)]
            if isinstance(d, ast.Constant) and isinstance(d.value, str):
                return [_Part('str', var=e.id)]
            return [_Part('var', var=e.id)]
        return [_Part('unknown', txt=ast.unparse(e)[:40])]


def _mentions(key: str, name: str) -> bool:
    import re
    return re.search(r'\b' + re.escape(name) + r'\b', key) is not None


def helper_shapes(w: World, helper: str) -> tuple[set, list]:
    """(set of token tuples over all non-raising paths, list of problems)."""
    fi = w.repo.func('parsing', helper)
    paths = _Derive(w, fi).run()
    shapes = set()
    problems = []
    for parts in paths:
        toks = []
        ok = True
        i = 0
        if any(p.kind == 'str' for p in parts):
            continue        # b''.join raises TypeError on this path: rejected, not mis-assembled
        while i < len(parts):
            p = parts[i]
            if p.kind == 'fixed':
                toks.append(str(p.width))
                i += 1
            elif p.kind == 'prefix':
                nxt = parts[i + 1] if i + 1 < len(parts) else None
                if nxt is None and p.txt == 'literal':
                    toks.append(str(p.width))
                    i += 1
                    continue
                if nxt is None:
                    ok = False
                    break
                if p.var is not None and ((nxt.kind == 'var' and nxt.var == p.var) or
                                          (nxt.kind == 'fixed' and nxt.var == p.var)):
                    toks += [str(p.width), f'n[u{p.width}]']
                    i += 2
                elif p.value is not None and nxt.kind == 'fixed' and nxt.width == p.value:
                    toks += [str(p.width), f'n[u{p.width}]']
                    i += 2
                elif p.txt == 'literal':
                    toks.append(str(p.width))           # just literal bytes
                    i += 1
                else:
                    ok = False
                    problems.append(f'length prefix of `{p.var or p.value}` is followed by `{nxt.var or nxt.txt}`')
                    break
            else:
                ok = False
                problems.append(f'the byte length of the emitted part `{p.var or p.txt or p.kind}` is not established on a path '
                                f'(no length guard / length prefix): the VM reads a fixed number of bytes, a longer encoding '
                                f'is silently mis-assembled')
                break
        if ok:
            shapes.add(tuple(toks))
        # paths whose payload is not provably bytes raise at join: ignored, not flagged
    return shapes, problems


def helper_decimal_domains(w: World, helper: str) -> list[tuple]:
    """(codec, variable, lo, hi) for every numeric operand whose admissible range the helper spells out with
    comparisons: codec 's' = `int_to_bytes(n)` proved one byte wide by the bounds, 'u<k>' = `n.to_bytes(k, 'big')`
    (lo / hi None when no guard bounds that side: the codec itself raises there)."""
    d = _Derive(w, w.repo.func('parsing', helper))
    d.run()
    return list(d.domains)


def _int_typed(e, ints: set) -> bool:
    if isinstance(e, ast.Call) and isinstance(e.func, ast.Name) and e.func.id == 'int' and e.args and \
            not isinstance(e.args[0], ast.Constant):
        return True
    if isinstance(e, ast.Name):
        return e.id in ints
    if isinstance(e, ast.BinOp):
        return _int_typed(e.left, ints) or _int_typed(e.right, ints)
    if isinstance(e, ast.UnaryOp):
        return _int_typed(e.operand, ints)
    if isinstance(e, ast.IfExp):
        return _int_typed(e.body, ints) or _int_typed(e.orelse, ints)
    return False


def _lossless_numbers(w: World, rep: Report):
    """A number written in the source reaches the byte code only through an encoder that either represents it or
    raises (`int_to_bytes` + length check, `n.to_bytes(k, 'big')`, struct.pack): no masking, modulo, shifting,
    clamping or slicing in between - those turn an operand that does not fit into another, valid-looking one."""
    rep.rule('C11.R8', 'numbers parsed from the source reach their encoder unreduced: no `&`, `%`, shifts, abs/min/max '
             'clamps on the integer and no slicing of its encoding (an operand that does not fit is refused, not wrapped)',
             floor=8)
    n_sites = 0
    for fi in w.repo.all_funcs(['parsing']):
        ints: set[str] = set()
        for _ in range(3):
            for s2 in ast.walk(fi.node):
                tg, val = [], None
                if isinstance(s2, ast.Assign):
                    tg, val = s2.targets, s2.value
                elif isinstance(s2, ast.AnnAssign) and s2.value is not None:
                    tg, val = [s2.target], s2.value
                elif isinstance(s2, ast.NamedExpr):
                    tg, val = [s2.target], s2.value
                if val is not None and _int_typed(val, ints):
                    ints |= {t.id for t in tg if isinstance(t, ast.Name)}
        sites = [x for x in ast.walk(fi.node) if isinstance(x, ast.Call) and isinstance(x.func, ast.Name) and
                 x.func.id == 'int' and x.args and not isinstance(x.args[0], ast.Constant)]
        if not sites:
            continue
        n_sites += len(sites)
        bad = []
        for x in ast.walk(fi.node):
            if isinstance(x, ast.BinOp) and isinstance(x.op, (ast.BitAnd, ast.Mod, ast.RShift, ast.LShift, ast.FloorDiv,
                                                                 ast.BitOr, ast.BitXor)) and \
                    (_int_typed(x.left, ints) or (_int_typed(x.right, ints) and not isinstance(x.left, ast.Constant))):
                if isinstance(x.op, ast.Mod) and isinstance(x.left, (ast.Constant, ast.JoinedStr)):
                    continue        # string formatting
                bad.append((x.lineno, ast.unparse(x)[:50]))
            if isinstance(x, ast.Call) and isinstance(x.func, ast.Name) and x.func.id in ('abs', 'min', 'max', 'divmod') \
                    and any(_int_typed(a, ints) for a in x.args):
                bad.append((x.lineno, ast.unparse(x)[:50]))
            if isinstance(x, ast.Subscript) and isinstance(x.value, ast.Call):
                c = x.value
                enc = (isinstance(c.func, ast.Name) and c.func.id in ('int_to_bytes', 'uint_to_bytes') and c.args and
                       _int_typed(c.args[0], ints)) or \
                      (isinstance(c.func, ast.Attribute) and c.func.attr == 'to_bytes' and _int_typed(c.func.value, ints))
                if enc:
                    bad.append((x.lineno, ast.unparse(x)[:50]))
        rep.check('C11.R8', f'{fi.key}|source-numbers-encoded-unreduced', not bad,
                  line=bad[0][0] if bad else fi.node.lineno, file='tapescript/parsing.py',
                  why='' if not bad else
                  f'`{bad[0][1]}` reduces a number written in the source before / after encoding it: a value that does not fit '
                  f'its operand is silently replaced by another one instead of being rejected',
                  facts={'source_numbers': len(sites)})
    if n_sites < 8:
        raise AnalysisError(f'only {n_sites} numeric conversions found in the compiler (inventory changed)')


def helper_prefix_bounds(w: World, helper: str) -> list[tuple[int, int | None]]:
    """(prefix width, upper bound on the payload length that guards establish) for every length-prefixed
    part an encoder helper emits, over all its non-raising paths."""
    fi = w.repo.func('parsing', helper)
    out = []
    for parts in _Derive(w, fi).run():
        for p in parts:
            if p.kind == 'prefix' and p.var is not None:
                out.append((p.width, p.maxlen))
    return out


# ---------------------------------------------------------------------------
def run(w: World, rep: Report):
    rep.rule('C11.R1', 'dispatch exhaustiveness and uniqueness: every VM op is handled by exactly one compiler '
             'case (get_args) or block parser; no label is unknown to the VM', floor=90)
    rep.rule('C11.R2', 'operand shape emitted by the encoder helper of each op equals the shape its VM '
             'handler reads', floor=85)
    rep.rule('C11.R2b', 'block parsers emit 1-byte opcodes / handles and length prefixes of the width the VM '
             'reads', floor=6)
    rep.rule('C11.R3', 'every block parser advances by exactly one symbol over a terminator of its own block', floor=8)
    rep.rule('C11.R4', 'PUSH selects the smallest push: the size guards partition [1, 65535] as {1}, [2,255], '
             '[256,65535] with matching prefix widths and opcodes; everything else raises', floor=4)
    rep.rule('C11.R5', 'assemble / parse_next concatenate the parts of each statement in source order '
             '(extend/append only, index advanced by the reported amount)', floor=4)
    rep.rule('C11.R6', 'macro and symbol tables are written only by define_macro; expansion substitutes into '
             'copies, never in place', floor=2)
    ops = w.ops
    vm = set(ops.by_name)
    ga = w.repo.func('parsing', 'get_args')
    tables = match_tables(ga)
    if len(tables) != 1:
        raise AnalysisError('get_args: expected exactly one match statement')
    mt, cases = tables[0]
    label_case = {}
    dup = []
    for labels, c in cases:
        for l in labels:
            if isinstance(l, str):
                if l in label_case:
                    dup.append(l)
                label_case[l] = c
    pn = w.repo.func('parsing', 'parse_next')
    block_labels = {}
    pcfg = w.cfg(pn)
    for bn, bc in pcfg.nodes_with_call(lambda c: isinstance(c.func, ast.Name) and c.func.id in BLOCK_PARSERS):
        # the symbol equality that holds on every path to the call, whatever the if/else orientation
        for t, pol in pcfg.dominating_conditions(bn):
            if pol is True and isinstance(t.ast, ast.Compare) and len(t.ast.ops) == 1 and isinstance(t.ast.ops[0], ast.Eq) \
                    and isinstance(t.ast.comparators[0], ast.Constant) and isinstance(t.ast.comparators[0].value, str):
                block_labels[t.ast.comparators[0].value] = bc.func.id
    BLOCK_MAP = {'OP_IF': ['OP_IF', 'OP_IF_ELSE'], 'OP_TRY': ['OP_TRY_EXCEPT'], 'OP_DEF': ['OP_DEF'],
                 'OP_LOOP': ['OP_LOOP']}
    covered_by_block = {}
    for lab, parser in block_labels.items():
        for op in BLOCK_MAP.get(lab, []):
            covered_by_block[op] = parser
    for name in sorted(vm):
        why = ''
        in_case = name in label_case
        in_block = name in covered_by_block
        if not in_case and not in_block:
            why = 'no compiler case: the op cannot be assembled'
        elif in_case and in_block:
            why = 'handled both by get_args and by a block parser'
        elif name in dup:
            why = 'listed in more than one get_args case'
        rep.check('C11.R1', f'compiler|{name}', not why, file=RELP, why=why, trivial=False)
    extra = sorted(set(label_case) - vm - {'OP_PUSH'})
    rep.check('C11.R1', 'compiler|no-unknown-labels', not extra, file=RELP,
              why='' if not extra else f'compiler labels unknown to the VM: {extra}')
    rep.check('C11.R1', 'compiler|pseudo-op', 'OP_PUSH' in label_case, file=RELP,
              why='' if 'OP_PUSH' in label_case else 'OP_PUSH pseudo-op lost its case')

    # ---- R2 ----------------------------------------------------------------
    vm_shapes = {}
    for name, (code, fr) in ops.by_name.items():
        h = w.repo.func(fr.module, fr.name)
        toks = {tuple(norm_token(r) for r in s) for s in tape_reads(w, h)}
        if len(toks) != 1:
            rep.check('C11.R2', f'compiler|{name}|shape', False, file='tapescript/functions.py', line=h.node.lineno,
                      why=f'{h.name} consumes different operand bytes on different normal paths ({sorted(toks)}): the '
                      f'encoding the compiler emits is over- or under-read on one of them')
            continue
        vm_shapes[name] = list(toks)[0]
    nop_h = w.repo.func(w.nop.module, w.nop.name)
    nop_shape = list({tuple(norm_token(r) for r in s) for s in tape_reads(w, nop_h)})[0]
    shape_cache = {}
    for labels, c in cases:
        helper = None
        for n in ast.walk(c):
            if isinstance(n, ast.Return) and isinstance(n.value, ast.Call) and isinstance(n.value.func, ast.Name):
                helper = n.value.func.id
        names = [l for l in labels if isinstance(l, str)]
        if None in labels:
            # NOP branch inside the wildcard
            for n in ast.walk(c):
                if isinstance(n, ast.If) and 'NOP' in ast.unparse(n.test):
                    for r in ast.walk(n):
                        if isinstance(r, ast.Return) and isinstance(r.value, ast.Call):
                            hs, probs = helper_shapes(w, r.value.func.id)
                            unsigned = {tuple(_s2u(t) for t in s) for s in hs}
                            want = tuple(_s2u(t) for t in nop_shape)
                            ok = unsigned == {want}
                            rep.check('C11.R2', 'compiler|NOP|shape', ok, file=RELP, line=r.lineno,
                                      why='' if ok else f'NOP encoder emits {sorted(hs)}, the VM NOP reads {list(nop_shape)}',
                                      facts={'helper': r.value.func.id})
            continue
        if 'OP_PUSH' in names:
            continue
        if helper is None:
            # no-operand group: case body is `pass`, falls to `return (advance, tuple(args))`
            hs = {()}
            probs = []
            def _empty_payload_return(st):
                # `return (advance, ())` / `(advance, tuple())` / `(advance, tuple([]))`: no operand bytes
                if not (isinstance(st, ast.Return) and isinstance(st.value, ast.Tuple) and len(st.value.elts) == 2):
                    return False
                p = st.value.elts[1]
                if isinstance(p, (ast.Tuple, ast.List)) and not p.elts:
                    return True
                return isinstance(p, ast.Call) and isinstance(p.func, ast.Name) and p.func.id == 'tuple' and \
                    (not p.args or (len(p.args) == 1 and isinstance(p.args[0], (ast.List, ast.Tuple)) and not p.args[0].elts))
            if not all(isinstance(s, ast.Pass) or (isinstance(s, ast.Expr) and isinstance(s.value, ast.Constant))
                       or _empty_payload_return(s) for s in c.body):
                raise AnalysisError('get_args: operand-less case has an unrecognised body')
        else:
            if helper not in shape_cache:
                shape_cache[helper] = helper_shapes(w, helper)
            hs, probs = shape_cache[helper]
        for nm in names:
            want = vm_shapes.get(nm)
            if want is None:
                continue
            ok = hs == {want} and not probs
            why = ''
            if not ok:
                why = (f'{nm}: encoder {helper or "(no operands)"} emits {sorted(list(s) for s in hs)}, the VM handler reads '
                       f'{list(want)}' + (f'; {probs[0]}' if probs else ''))
            rep.check('C11.R2', f'compiler|{nm}|shape', ok, file=RELP, line=c.pattern.lineno, why=why,
                      facts={'helper': helper, 'vm': list(want)})

    # ---- R2b block parsers ---------------------------------------------------
    for parser, (op, _) in BLOCK_PARSERS.items():
        fi = w.repo.func('parsing', parser)
        widths = []
        for n in ast.walk(fi.node):
            if isinstance(n, ast.Call) and isinstance(n.func, ast.Attribute) and n.func.attr == 'to_bytes' and n.args \
                    and isinstance(n.args[0], ast.Constant):
                recv = ast.unparse(n.func.value)
                widths.append((recv, n.args[0].value,
                               n.args[1].value if len(n.args) > 1 and isinstance(n.args[1], ast.Constant) else None,
                               n.lineno))
        why = ''
        assigned = {}
        for n in ast.walk(fi.node):
            if isinstance(n, ast.Assign) and isinstance(n.targets[0], ast.Name):
                assigned.setdefault(n.targets[0].id, []).append(ast.unparse(n.value))
        guards_txt = [ast.unparse(n).replace(' ', '') for n in ast.walk(fi.node) if isinstance(n, ast.Compare)]
        for recv, k, order, line in widths:
            defs = assigned.get(recv, [])
            is_len = 'len(' in recv or any('len(' in d or d == '0' for d in defs)
            is_op = 'opcodes_inverse' in recv
            is_handle = False
            narrow_handle = None
            if not is_len and not is_op and recv.isidentifier():
                # some comparison in the parser admits exactly 0..255 for it (whatever its spelling)
                from .feval import feval, Unknown, free_names
                for cmpn in [x for x in ast.walk(fi.node) if isinstance(x, ast.Compare)]:
                    if free_names(cmpn) != {recv}:
                        continue
                    try:
                        acc = {v for v in range(-3, 300) if feval(cmpn, {recv: v})}
                    except Unknown:
                        continue
                    if acc == set(range(256)):
                        is_handle = True
                    elif len(acc) >= 200 and acc < set(range(256)):
                        # a spelling of the handle that admits almost, but not all of 0..255: a handle the VM (and the
                        # decompiler's listing) knows cannot be written in that form
                        narrow_handle = (ast.unparse(cmpn)[:40], sorted(set(range(256)) - acc)[:3], cmpn.lineno)
            if order != 'big':
                why = f'`{recv}.to_bytes` is not big-endian'
            if is_len and k != 2:
                why = f'length prefix `{recv}` emitted with {k} bytes; the VM reads 2'
            if (is_op or is_handle) and k != 1:
                why = f'`{recv}` emitted with {k} bytes; the VM reads 1'
            if not (is_len or is_op or is_handle):
                why = f'unrecognised emitted integer `{recv}`'
            if is_handle and narrow_handle:
                why = (f'`{narrow_handle[0]}` (line {narrow_handle[2]}) refuses the handle(s) {narrow_handle[1]} that one byte can hold: '
                       f'`def 255`, which the decompiler prints for handle byte ff, does not compile')
        if not widths:
            why = 'no encoded integers found'
        rep.check('C11.R2b', f'parsing.{parser}|widths', not why, file=RELP, line=fi.node.lineno, why=why,
                  facts={'emitted': [(r, k) for r, k, _, _ in widths]})

    # ---- R3 terminator advance -------------------------------------------------
    for parser, (op, endtok) in BLOCK_PARSERS.items():
        fi = w.repo.func('parsing', parser)
        _terminators(w, rep, fi, endtok)

    # ---- R4 push partition --------------------------------------------------------
    _push_partition(w, rep)

    # ---- R5 concatenation order ------------------------------------------------------
    _concat_order(w, rep)
    _compile_entry(w, rep)

    # ---- R6 macro / symbol tables are expanded from copies ---------------------------------
    _macro_table(w, rep)

    # ---- R7 one- vs two-symbol operand forms are told apart by the instruction tables -------
    _lookahead(w, rep)

    # ---- R9 the alias table: the OP_-prefixed and the bare spelling of an alias name the same instruction ----------
    rep.rule('C11.R9', 'alias table: `OP_<alias>` and `<alias>` name the same instruction, and every alias names an '
             'instruction of the op table', floor=30)
    fm = w.repo.modules.get('functions')
    pairs = {}
    for st in fm.tree.body:
        if isinstance(st, ast.Assign) and len(st.targets) == 1 and isinstance(st.targets[0], ast.Subscript) and \
                isinstance(st.targets[0].value, ast.Name) and st.targets[0].value.id == 'opcode_aliases' and \
                isinstance(st.targets[0].slice, ast.Constant) and isinstance(st.value, ast.Constant):
            pairs[st.targets[0].slice.value] = (st.value.value, st.lineno)
    if len(pairs) < 30:
        raise AnalysisError(f'only {len(pairs)} literal alias entries found')
    for k, (v, line) in sorted(pairs.items()):
        if not k.startswith('OP_'):
            continue
        bare = pairs.get(k[3:])
        ok9 = (bare is None or bare[0] == v) and v in vm
        rep.check('C11.R9', f'functions.opcode_aliases|{k}', ok9, line=line, file='tapescript/functions.py',
                  why='' if ok9 else (f'`{k}` names {v} but `{k[3:]}` names {bare[0]}: the two spellings of one alias assemble to '
                                      f'different instructions' if bare is not None and bare[0] != v else f'`{k}` names {v}, which is not an instruction'))
    # ---- R8 numbers from the source are encoded unreduced -----------------------------------
    _lossless_numbers(w, rep)

    from .report import depend
    depend(rep, w, 'rules_c19', ('C19.R3',), 'C11.TD19',
           'what a source compiles to does not depend on earlier compilations: no parser function mutates a default '
           'argument a caller can take (C19.R3 re-evaluated) - a macro or variable table shared between calls makes '
           'undefined macros assemble and redefinitions leak', floor=20)
    rep.explanation = (
        'Decides the structural clauses of C11: the compiler dispatch covers every VM op exactly once '
        '(R1); the operand shape each encoder helper emits - derived by abstract interpretation of the '
        'helper over all its non-raising paths - equals the tape-read shape of the VM handler (R2, R2b); '
        'block terminators advance uniformly (R3, the END_IF defect); the PUSH size guards partition '
        'exactly (R4); parts are concatenated in source order (R5). Tokenizer behaviour, value-prefix '
        'parsing, macros/variables/comptime expansion and rejection of every unencodable source are not '
        'decided.')


def _s2u(tok: str) -> str:
    return tok


def _terminators(w: World, rep: Report, fi, endtok: str):
    """In the main `while` of a block parser every branch that recognises `}` or the END_
    token of this block must do `index += 1` exactly once before leaving the loop."""
    loops = [n for n in ast.walk(fi.node) if isinstance(n, ast.While)]
    if not loops:
        raise AnalysisError(f'{fi.key}: main loop not found')
    lp = loops[0]
    found = 0
    # the index variable is the one the loop condition compares with len(symbols); the current
    # symbol is the local assigned symbols[index] at the top of the body
    idx_var = None
    if isinstance(lp.test, ast.Compare) and len(lp.test.ops) == 1:
        # `index < len(symbols)` / `index <= stop` or the same comparison written the other way round
        if isinstance(lp.test.left, ast.Name) and isinstance(lp.test.ops[0], (ast.Lt, ast.LtE)):
            idx_var = lp.test.left.id
        elif isinstance(lp.test.comparators[0], ast.Name) and isinstance(lp.test.ops[0], (ast.Gt, ast.GtE)):
            idx_var = lp.test.comparators[0].id
    cur_var = None
    for st in lp.body:
        if isinstance(st, ast.Assign) and isinstance(st.targets[0], ast.Name) and isinstance(st.value, ast.Subscript) \
                and isinstance(st.value.slice, ast.Name) and st.value.slice.id == idx_var:
            cur_var = st.targets[0].id
            break
    if idx_var is None or cur_var is None:
        raise AnalysisError(f'{fi.key}: index / current-symbol variables of the main loop not recognised')

    def term_tokens(test):
        toks = set()
        for n in ast.walk(test):
            if isinstance(n, ast.Compare) and len(n.ops) == 1 and isinstance(n.ops[0], (ast.Eq, ast.In)):
                c = n.comparators[0]
                vals = []
                if isinstance(c, ast.Constant):
                    vals = [c.value]
                elif isinstance(c, (ast.Tuple, ast.List, ast.Set)):
                    vals = [e.value for e in c.elts if isinstance(e, ast.Constant)]
                if isinstance(n.left, ast.Name) and n.left.id == cur_var:
                    for v in vals:
                        if v in ('}', endtok):
                            toks.add(v)
        return toks

    # CFG form: the *true* edge of every test that compares the current symbol with `}` / the END_ token
    # (whatever the if/else orientation or `not` spelling) leads, on every path up to leaving the loop or
    # re-entering its head, through exactly one `index += 1`
    cfg = w.cfg(fi)
    lp2 = [n for n in ast.walk(ast.Module(body=cfg.body, type_ignores=[])) if isinstance(n, ast.While)]
    if not lp2:
        raise AnalysisError(f'{fi.key}: main loop not found in the CFG body')
    lp2 = lp2[0]

    def in_loop_body(nd):
        return nd.ast is not None and nd.stmt is not lp2 and any(a is lp2 for a in cfg.ancestors(nd.ast))

    def adv_of(nd):
        a = nd.ast
        if nd.kind == 'stmt' and isinstance(a, ast.AugAssign) and isinstance(a.target, ast.Name) and a.target.id == idx_var:
            if isinstance(a.op, ast.Add) and isinstance(a.value, ast.Constant) and isinstance(a.value.value, int):
                return a.value.value
            return 99
        if nd.kind == 'stmt' and isinstance(a, ast.Assign) and any(isinstance(t, ast.Name) and t.id == idx_var for t in a.targets):
            return 99
        return 0
    for t in cfg.nodes:
        if t.kind != 'test' or not in_loop_body(t):
            continue
        toks = term_tokens(t.ast)
        if not toks:
            continue
        for tok in sorted(toks):
            advs = set()
            for s2, lab in t.succ:
                if lab is not True:
                    continue
                for path in cfg.paths(s2, lambda nd: not in_loop_body(nd), cap=2000):
                    advs.add(sum(adv_of(nd) for nd, _ in path if in_loop_body(nd)))
            found += 1
            ok = advs == {1}
            why = ''
            if not ok:
                why = (f'branch recognising `{tok}` advances the symbol index by {sorted(advs)} '
                       f'(expected exactly 1): a following symbol is ' +
                       ('silently dropped' if any(a > 1 for a in advs) else 're-read'))
            rep.check('C11.R3', f'{fi.key}|terminator|{tok}', ok, line=t.line, file=RELP, why=why,
                      facts={'advances': sorted(advs)})
    if found == 0:
        raise AnalysisError(f'{fi.key}: no terminator branch recognised')


def _advances(stmts, idx_var='index') -> set[int]:
    """Possible total `index += k` amounts over the paths of a statement list (until break/continue)."""
    results = set()

    def rec(stmts, acc):
        """returns set of acc values for paths that fall through; adds terminated ones to results"""
        cur = {acc}
        for s in stmts:
            nxt = set()
            for a in cur:
                if isinstance(s, ast.AugAssign) and isinstance(s.target, ast.Name) and s.target.id == idx_var \
                        and isinstance(s.op, ast.Add) and isinstance(s.value, ast.Constant):
                    nxt.add(a + s.value.value)
                elif isinstance(s, ast.AugAssign) and isinstance(s.target, ast.Name) and s.target.id == idx_var:
                    nxt.add(a + 99)
                elif isinstance(s, (ast.Break, ast.Continue, ast.Return)):
                    results.add(a)
                elif isinstance(s, ast.If):
                    nxt |= rec(s.body, a)
                    nxt |= rec(s.orelse, a)
                else:
                    nxt.add(a)
            cur = nxt
        return cur
    for a in rec(stmts, 0):
        results.add(a)
    return results


def _lookahead(w: World, rep: Report):
    """`OP_PUSH1 <size> <val>` vs `OP_PUSH1 <val>` (and PUSH2): whether the symbol after the first operand is a
    second operand or the next instruction is decided by looking it up - it is an instruction exactly when it is
    in the op table, the NOP table, the alias table or the special symbols.  A test on the spelling of the symbol
    (a value prefix d/f/x/s) swallows instructions written as bare aliases (SHA256, DUP, FALSE, XOR ...)."""
    rep.rule('C11.R7', 'the one- vs two-symbol operand form is chosen by looking the next symbol up in the op, NOP, alias '
             'and special-symbol tables', floor=2)
    TABLES = ('opcodes_inverse', 'nopcodes_inverse', 'opcode_aliases', '_special_symbols')
    n = 0
    for fi in w.repo.all_funcs(['parsing']):
        if fi.parent is not None or not fi.name.startswith('_get_') or len(fi.params) < 3:
            continue
        cfg = w.cfg(fi)
        adv = fi.params[2]
        twos = [nd for nd in cfg.nodes if nd.kind == 'stmt' and isinstance(nd.ast, ast.AugAssign) and
                isinstance(nd.ast.target, ast.Name) and nd.ast.target.id == adv and isinstance(nd.ast.value, ast.Constant)
                and nd.ast.value.value == 2]
        ones = [nd for nd in cfg.nodes if nd.kind == 'stmt' and isinstance(nd.ast, ast.AugAssign) and
                isinstance(nd.ast.target, ast.Name) and nd.ast.target.id == adv and isinstance(nd.ast.value, ast.Constant)
                and nd.ast.value.value == 1]
        if not (twos and ones):
            continue            # only helpers that choose between consuming one or two symbols
        for nd in twos:
            n += 1
            consulted = set()
            for t, pol in cfg.dominating_conditions(nd):
                a = t.ast
                if isinstance(a, ast.Compare) and len(a.ops) == 1 and isinstance(a.comparators[0], ast.Name) and \
                        a.comparators[0].id in TABLES:
                    if (isinstance(a.ops[0], ast.NotIn) and pol is True) or (isinstance(a.ops[0], ast.In) and pol is False):
                        consulted.add(a.comparators[0].id)
            # conditions on the *spelling* of the second symbol may keep instructions out (the OP_ prefix) but never a
            # value: every value spelling - the bare `x` (empty payload) and `d0` included - must reach this form
            from .feval import feval, Unknown
            sp = fi.params[1] if len(fi.params) > 1 else 'symbols'
            for prm in fi.params:
                if fi.annotations.get(prm, '').startswith('list'):
                    sp = prm
            kept_out = None
            for t, pol in cfg.dominating_conditions(nd):
                for sym in ('x', 'd0', 'x00', 'xff00', 'd-5', 's"a"', "s'b'", 'f1.5', 'd1'):
                    try:
                        v = bool(feval(t.ast, {sp: ('OP_PUSH1', sym, 'OP_TRUE')}))
                    except Unknown:
                        break
                    if v != pol:
                        kept_out = kept_out or (ast.unparse(t.ast)[:50], sym)
            rep.check('C11.R7', f'parsing.{fi.name}|two-symbol-form|no-value-spelling-kept-out', kept_out is None, line=nd.line,
                      file=RELP, why='' if kept_out is None else
                      f'`{kept_out[0]}` keeps the value `{kept_out[1]}` from being read as the operand: the size is then taken '
                      f'for the value and the value for an instruction (`OP_PUSH1 d0 x`, what the decompiler prints for an '
                      f'empty push, no longer compiles)')
            missing = [t for t in TABLES if t not in consulted]
            rep.check('C11.R7', f'parsing.{fi.name}|two-symbol-form|tables-consulted', not missing, line=nd.line, file=RELP,
                      why='' if not missing else
                      f'the second symbol is taken as an operand without being looked up in {missing}: an instruction '
                      f'spelled like a value (bare alias starting with d/f/x/s, a fork alias, a delimiter) is swallowed as '
                      f'data and the written operand is dropped, silently')
    if n == 0:
        raise AnalysisError('no encoder helper that chooses between a one- and a two-symbol operand form found')


def _push_partition(w: World, rep: Report):
    fi = w.repo.func('parsing', '_get_OP_PUSH_args')
    # find the if/elif chain over len(val)
    chain = None
    vname = None
    for n in fi.node.body:
        if isinstance(n, ast.If):
            m = re.match(r'^len\((\w+)\)', ast.unparse(n.test).replace(' ', '')) or \
                re.search(r'len\((\w+)\)', ast.unparse(n.test))
            if m:
                chain = n
                vname = m.group(1)
    if chain is None:
        raise AnalysisError('_get_OP_PUSH_args: size chain not found')
    lenterm = f'len({vname})'
    arms = []
    node = chain
    neg = []
    while True:
        f = L.formula(node.test)
        cond = L.f_and(neg + [f])
        arms.append((cond, node.body, node.lineno))
        neg.append(L.f_not(f))
        if len(node.orelse) == 1 and isinstance(node.orelse[0], ast.If):
            node = node.orelse[0]
        else:
            arms.append((L.f_and(neg), node.orelse, node.lineno))
            break
    want = [((1, 1), None), ((2, 255), 1), ((256, 65535), 2)]
    got = []
    for cond, body, line in arms:
        width = None
        raises = any(isinstance(s, ast.Raise) for s in body)
        for s in ast.walk(ast.Module(body=body, type_ignores=[])):
            if isinstance(s, ast.Call) and isinstance(s.func, ast.Attribute) and s.func.attr == 'to_bytes' and \
                    lenterm in ast.unparse(s.func.value) and s.args and isinstance(s.args[0], ast.Constant):
                width = s.args[0].value
        # the interval of len(val) for which this arm is taken: evaluate over 0..70000 boundary points
        pts = [0, 1, 2, 3, 127, 128, 254, 255, 256, 257, 32767, 32768, 65534, 65535, 65536, 70000]
        taken = [p for p in pts if _eval_len(cond, p, lenterm)]
        got.append((taken, width, raises, line))
    for (lo, hi), width in want:
        pts_in = [p for p in [0, 1, 2, 3, 127, 128, 254, 255, 256, 257, 32767, 32768, 65534, 65535, 65536, 70000]
                  if lo <= p <= hi]
        arm = [g for g in got if g[0] == pts_in and g[1] == width and not g[2]]
        ok = len(arm) == 1
        rep.check('C11.R4', f'parsing._get_OP_PUSH_args|len in [{lo},{hi}]|prefix={width}', ok, file=RELP,
                  line=chain.lineno, why='' if ok else
                  f'no arm taken exactly for {lenterm} in [{lo},{hi}] with a {width}-byte length prefix; arms: '
                  f'{[(g[0][:1] + g[0][-1:], g[1], "raise" if g[2] else "") for g in got]}')
    rest = [g for g in got if g[2]]
    outside = [0, 65536, 70000]
    ok = len(rest) == 1 and rest[0][0] == outside
    rep.check('C11.R4', 'parsing._get_OP_PUSH_args|outside|raises', ok, file=RELP, line=chain.lineno,
              why='' if ok else 'sizes outside [1, 65535] are not rejected with an error')
    # opcode selection in parse_next: len(args) < 2 -> PUSH0, len(args[0]) == 1 -> PUSH1, == 2 -> PUSH2
    pn = w.repo.func('parsing', 'parse_next')
    aname = 'args'
    for n in ast.walk(pn.node):
        if isinstance(n, ast.Assign) and isinstance(n.value, ast.Call) and dotted(n.value.func) == 'get_args' and \
                isinstance(n.targets[0], ast.Tuple) and len(n.targets[0].elts) == 2:
            aname = n.targets[0].elts[1].id
    # on every path to the statement that emits OP_PUSHk the selecting condition holds (CFG conditions, so the
    # if/else orientation, `not`, and the side a comparison is written on do not matter)
    pcfg2 = w.cfg(pn)
    want_sel = {'OP_PUSH0': f'len({aname}) < 2', 'OP_PUSH1': f'len({aname}[0]) == 1', 'OP_PUSH2': f'len({aname}[0]) == 2'}
    sel = {}
    for nd in pcfg2.nodes:
        if nd.ast is None or nd.kind != 'stmt':
            continue
        for x in ast.walk(nd.ast):
            if isinstance(x, ast.Subscript) and isinstance(x.value, ast.Name) and x.value.id == 'opcodes_inverse' \
                    and isinstance(x.slice, ast.Constant) and str(x.slice.value) in want_sel:
                op = x.slice.value
                want_f = L.formula(ast.parse(want_sel[op], mode='eval').body)
                hit = False
                for t, pol in pcfg2.dominating_conditions(nd):
                    try:
                        f = L.formula(t.ast)
                    except Exception:
                        continue
                    f = f if pol else L.f_not(f)
                    if L.equivalent(f, want_f)[0]:
                        hit = True
                sel[op] = sel.get(op, True) and hit
    ok = set(sel) == set(want_sel) and all(sel.values())
    rep.check('C11.R4', 'parsing.parse_next|push-opcode-selection', ok, file=RELP, line=pn.node.lineno,
              why='' if ok else f'PUSH opcode selection is {sel}, expected {want_sel}')


def _eval_len(f, p: int, lenterm: str = 'len(val)') -> bool:
    """Evaluate a formula whose only term is len(<value>) at that length = p."""
    def ev(g):
        if g[0] == 'const':
            return g[1]
        if g[0] == 'lit':
            k = g[1]
            if k[0] != 'ge':
                raise AnalysisError('push partition: opaque condition')
            total = k[2]
            for term, coef in k[1]:
                if term != lenterm:
                    raise AnalysisError(f'push partition: unexpected term {term}')
                total += coef * p
            v = total >= 0
            return v if g[2] else not v
        if g[0] == 'and':
            return all(ev(x) for x in g[1])
        if g[0] == 'or':
            return any(ev(x) for x in g[1])
        if g[0] == 'not':
            return not ev(g[1])
        raise AnalysisError('bad formula')
    return ev(f)


def _concat_order(w: World, rep: Report):
    """assemble / block parsers: `advance, parts = parse_next(...)`; `index += advance`;
    `code.extend(parts)` in that loop; final b''.join(code)."""
    for fname in ('assemble', 'parse_if', 'parse_else', 'parse_try', 'parse_except', 'parse_loop', 'parse_def'):
        fi = w.repo.func('parsing', fname)
        loops = [n for n in ast.walk(fi.node) if isinstance(n, ast.While)]
        if not loops:
            raise AnalysisError(f'{fi.key}: main loop vanished')
        lp = loops[0]
        calls = [n for n in ast.walk(lp) if isinstance(n, ast.Assign) and isinstance(n.value, ast.Call)
                 and isinstance(n.value.func, ast.Name) and n.value.func.id in ('parse_next', 'parse_else', 'parse_except')
                 and isinstance(n.targets[0], ast.Tuple) and len(n.targets[0].elts) == 2]
        ok = bool(calls)
        why = '' if ok else 'no `advance, parts = parse_next(...)` in the main loop'
        for a in calls:
            adv, parts = (e.id for e in a.targets[0].elts)
            # siblings following the call in its block
            blk = _block_of(lp, a)
            after = blk[blk.index(a) + 1:] if blk else []
            has_adv = any(isinstance(s, ast.AugAssign) and isinstance(s.target, ast.Name) and s.target.id == 'index'
                          and isinstance(s.op, ast.Add) and isinstance(s.value, ast.Name) and s.value.id == adv
                          for s in after)
            has_ext = any(
                (isinstance(s, ast.Expr) and isinstance(s.value, ast.Call) and isinstance(s.value.func, ast.Attribute)
                 and s.value.func.attr == 'extend' and s.value.args and isinstance(s.value.args[0], ast.Name)
                 and s.value.args[0].id == parts)
                or (isinstance(s, ast.AugAssign) and isinstance(s.op, ast.Add) and parts in ast.unparse(s.value)
                    and 'join' in ast.unparse(s.value))
                for s in after)
            if not has_adv:
                ok, why = False, 'the symbol index is not advanced by the amount parse_next reports'
            if not has_ext:
                ok, why = False, 'the parts returned by parse_next are not appended to the code in order'
            # appends must be at the end (extend / +=), never insert(0, ..)
        for n in ast.walk(fi.node):
            if isinstance(n, ast.Call) and isinstance(n.func, ast.Attribute) and n.func.attr in ('insert', 'reverse', 'sort') \
                    and isinstance(n.func.value, ast.Name) and n.func.value.id in ('code', 'parts'):
                ok, why = False, f'code list reordered by .{n.func.attr}()'
        rep.check('C11.R5', f'parsing.{fname}|source-order', ok, file=RELP, line=fi.node.lineno, why=why)


def _macro_table(w: World, rep: Report):
    """Only define_macro stores into the macro table (a whole new entry); nothing mutates an
    entry, the caller's symbol list or a template in place - expansion works on copies.  An
    in-place substitution makes a later use of the same macro / symbols emit the earlier values."""
    from .effects import Effects
    eff = Effects(w, modules=('parsing',))
    n = 0
    for key, fi in sorted(eff.funcs.items()):
        if fi.module.name != 'parsing':
            continue
        for wr in eff.direct.get(key, []):
            root = wr.path.split('.')[0].split('[')[0]
            if root not in ('macros', 'symbols'):
                continue
            n += 1
            ok = (fi.name == 'define_macro' and wr.path == 'macros' and wr.op == 'store')
            rep.check('C11.R6', f'{key}|{wr.op}@{wr.path}', ok, line=wr.line, file=RELP,
                      why='' if ok else f'{fi.name} mutates `{wr.path}` in place ({wr.op}): the stored macro / the '
                      f'caller\'s symbols change, so a later expansion emits different instructions than written')
    rep.check('C11.R6', 'parsing|macro-table-writers', n >= 1, file=RELP, trivial=True,
              why='' if n >= 1 else 'define_macro no longer stores into the macro table', facts={'writes_seen': n})


def _compile_entry(w: World, rep: Report):
    """compile_script hands exactly get_symbols(script) to assemble and returns its result;
    assemble runs parse_comptime over all symbols first and then parses from index 0."""
    cs = w.repo.func('parsing', 'compile_script')
    rets = [n for n in ast.walk(cs.node) if isinstance(n, ast.Return)]
    ok = len(rets) == 1 and isinstance(rets[0].value, ast.Call) and dotted(rets[0].value.func) == 'assemble'
    if ok:
        a0 = rets[0].value.args[0] if rets[0].value.args else None
        src = a0
        if isinstance(a0, ast.Name):
            defs = [n.value for n in ast.walk(cs.node) if isinstance(n, ast.Assign) and isinstance(n.targets[0], ast.Name)
                    and n.targets[0].id == a0.id]
            src = defs[0] if len(defs) == 1 else None
        ok = isinstance(src, ast.Call) and dotted(src.func) == 'get_symbols' and len(src.args) == 1 and \
            isinstance(src.args[0], ast.Name) and src.args[0].id == cs.params[0]
    rep.check('C11.R5', 'parsing.compile_script|all-symbols-to-assemble', ok, file=RELP, line=cs.node.lineno,
              why='' if ok else 'compile_script does not return assemble(get_symbols(script)) over the whole source')
    am = w.repo.func('parsing', 'assemble')
    txt = [ast.unparse(n).replace(' ', '') for n in am.node.body]
    loops = [n for n in am.node.body if isinstance(n, ast.While)]
    ivar = None
    if loops and isinstance(loops[0].test, ast.Compare) and len(loops[0].test.ops) == 1:
        lt = loops[0].test
        if isinstance(lt.left, ast.Name) and isinstance(lt.ops[0], (ast.Lt, ast.LtE)):
            ivar = lt.left.id
        elif isinstance(lt.comparators[0], ast.Name) and isinstance(lt.ops[0], (ast.Gt, ast.GtE)):
            ivar = lt.comparators[0].id
    idx0 = ivar is not None and f'{ivar}=0' in txt
    pc = [n for n in ast.walk(am.node) if isinstance(n, ast.Assign) and isinstance(n.value, ast.Call)
          and dotted(n.value.func) == 'parse_comptime']
    ok = idx0 and len(pc) == 1 and isinstance(pc[0].targets[0], ast.Name) and pc[0].targets[0].id == am.params[0] and \
        isinstance(pc[0].value.args[0], ast.Name) and pc[0].value.args[0].id == am.params[0]
    rets = [n for n in ast.walk(am.node) if isinstance(n, ast.Return)]
    import re as _re
    ok = ok and len(rets) == 1 and bool(_re.fullmatch(r"b''\.join\(\w+\)", ast.unparse(rets[0].value).replace(' ', '')))
    rep.check('C11.R5', 'parsing.assemble|whole-symbol-list-from-zero', ok, file=RELP, line=am.node.lineno,
              why='' if ok else 'assemble does not expand comptime over all symbols, start at index 0 and return the '
              'concatenation of all parts')


def _block_of(root, stmt):
    for n in ast.walk(root):
        for fld in ('body', 'orelse'):
            blk = getattr(n, fld, None)
            if isinstance(blk, list) and any(s is stmt for s in blk):
                return blk
    return None
