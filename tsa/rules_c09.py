"""C09 - embedder configuration applies uniformly at every nesting level."""
from __future__ import annotations
import ast
from .report import Report, AnalysisError
from .summary import World, node_events, tape_sites, tape_fields, TapeSite
from .model import dotted, FuncRef
from .kinds import K

LEVEL = 'other'
REL = 'tapescript/functions.py'
SIG_OPS_EXACTLY_ONCE = ('OP_GET_MESSAGE', 'OP_CHECK_SIG', 'OP_CHECK_SIG_VERIFY', 'OP_CHECK_MULTISIG',
                        'OP_CHECK_MULTISIG_VERIFY', 'OP_SIGN')


def run(w: World, rep: Report):
    rep.rule('C09.R1', 'every execution sub-tape inherits contracts, plugins and callstack_limit from '
             'its parent and a callstack_count >= the parent\'s', floor=24)
    rep.rule('C09.R2', 'flag map after sub-tape setup: every entry of the parent\'s map has the same '
             'value in the sub-tape (set_tape_flags transformer under the alias relation)', floor=8)
    rep.rule('C09.R3', 'sub-tape setup leaves every entry of the parent\'s / embedder\'s flag map unchanged', floor=8)
    rep.rule('C09.R4', 'signature-extension plugins run exactly once, first, on a plugin-carrying tape '
             'in every signature-related handler', floor=9)
    rep.rule('C09.R5', 'only set_tape_flags, OP_SET_FLAG and OP_UNSET_FLAG write flags; the flag '
             'instructions use a key type that can name a flag', floor=3)
    rep.rule('C09.R6', 'evaluation of stack-derived data happens only behind the disallow_OP_EVAL guard', floor=2)
    fields = tape_fields(w)
    for need in ('contracts', 'plugins', 'callstack_limit', 'callstack_count', 'flags', 'definitions'):
        if need not in fields:
            raise AnalysisError(f'Tape.{need} field vanished')
    _r1(w, rep, fields)
    _r23(w, rep, fields)
    _r4(w, rep)
    _r5(w, rep)
    _r6(w, rep)
    from .report import depend
    depend(rep, w, 'rules_c19', ('C19.R3', 'C19.R4'), 'C09.TD19',
           'the configuration of a run is what the embedder supplied for that run: no run writes into a shared default '
           'argument or into the embedder\'s dictionaries (C19.R3/R4 re-evaluated)', floor=20)
    # R8: an instruction reads the flags of its run (tape.flags), never the VM-wide default table `flags` - except
    # OP_SET_FLAG, which is documented to copy the default value of the named flag into the tape
    rep.rule('C09.R8', 'no handler reads the module-level default flag table (only OP_SET_FLAG copies a default into the '
             'tape): what a run does is decided by the run\'s flags', floor=50)
    for hname, h in sorted(w.handlers.items()):
        stored = {x.id for x in ast.walk(h.node) if isinstance(x, ast.Name) and isinstance(x.ctx, ast.Store)} | set(h.params)
        reads = [x for x in ast.walk(h.node) if isinstance(x, ast.Name) and isinstance(x.ctx, ast.Load) and
                 x.id in ('flags', 'flags_to_set') and x.id not in stored]
        ok = not reads or hname == 'OP_SET_FLAG'
        rep.check('C09.R8', f'functions.{hname}|reads-run-flags-only', ok, line=reads[0].lineno if reads else h.node.lineno,
                  file=REL, trivial=not reads,
                  why='' if ok else f'{hname} consults the VM-wide default table `{reads[0].id}`: a flag the embedder turned off '
                  f'(or on) for this run is ignored here')
    # R7: what the embedder passes to a run takes precedence over what is registered VM-wide (readme: "contracts passed
    # to run_script override registered ones"): the merge is `{**registry, **argument}` (or an equivalent in which the
    # argument comes last); a ChainMap(registry, argument) - first mapping wins - reverses it
    rep.rule('C09.R7', 'run_script merges the VM-wide registries with the run\'s arguments so that the argument wins '
             '({**registry, **argument})', floor=2)
    rs = w.repo.func('functions', 'run_script')
    for fld, reg in (('contracts', '_contracts'), ('plugins', '_plugins')):
        stores = [x for x in ast.walk(rs.node) if isinstance(x, ast.Assign) and any(
            isinstance(t, ast.Attribute) and t.attr == fld for t in x.targets)]
        if len(stores) != 1:
            raise AnalysisError(f'run_script: assignment of tape.{fld} not found')
        v = stores[0].value
        order = None
        if isinstance(v, ast.Dict) and all(k is None for k in v.keys):
            order = [ast.unparse(x) for x in v.values]
        elif isinstance(v, ast.BinOp) and isinstance(v.op, ast.BitOr):
            order = [ast.unparse(v.left), ast.unparse(v.right)]
        elif isinstance(v, ast.Call) and (dotted(v.func) or '').split('.')[-1] == 'ChainMap':
            order = [ast.unparse(a) for a in reversed(v.args)]      # first mapping wins: effective order is reversed
        elif isinstance(v, ast.Call) and dotted(v.func) == 'dict' and len(v.args) == 1 and any(k.arg is None for k in v.keywords):
            order = [ast.unparse(v.args[0])] + [ast.unparse(k.value) for k in v.keywords if k.arg is None]
        if order is None:
            raise AnalysisError(f'run_script: merge of {fld} not recognised: `{ast.unparse(v)[:50]}`')
        ok = order == [reg, fld]
        rep.check('C09.R7', f'functions.run_script|{fld}-argument-wins', ok, line=stores[0].lineno, file=REL,
                  why='' if ok else f'tape.{fld} is built as `{ast.unparse(v)[:50]}`: effective precedence {order} - an entry the '
                  f'embedder supplies for the run is shadowed by the registered one of the same name (or the registry is '
                  f'left out)')
    depend(rep, w, 'rules_c06', ('C06.R1',), 'C09.TD6',
           'eval_return governs the RETURN of an evaluated script at every nesting level: the flag left by a RETURN is '
           'consumed by EVAL unless eval_return is set, so IF / TRY / LOOP bodies around it behave as at top level '
           '(C06.R1 re-evaluated)', floor=8)
    rep.explanation = (
        'Decides, per sub-tape construction site and per run_tape call site, that the embedder\'s '
        'configuration reaches the nested execution: constructor keywords / attribute stores '
        '(R1), an abstract evaluation of set_tape_flags under the alias relation between sub-tape '
        'flags, additional_flags and the parent\'s flags (R2/R3), the number of plugin runs on '
        'plugin-carrying tapes over all paths of the inlined call tree (R4), who writes flags and '
        'with what key type (R5), and the dominance of the disallow guard (R6). Complete for the '
        'configuration kinds it covers; the behaviour of the probe instructions themselves is '
        'not decided.')
    rep.assumptions += ['flag keys are str or int (the type filter inside set_tape_flags is taken as true)']


# ---------------------------------------------------------------------------
def _paths_of(kinds, k: K) -> list[str | None]:
    out = []
    for leaf in k.leaves():
        if leaf.tag == 'copy':
            out += [('copy:' + (p or '?')) for p in _paths_of(kinds, leaf.src)]
        elif leaf.tag == 'dict' and leaf.spreads and leaf.nkeys == 0:
            for s in leaf.spreads:
                out += [('copy:' + (p or '?')) for p in _paths_of(kinds, s)]
        else:
            out.append(kinds.path(leaf))
    return out


def _r1(w: World, rep: Report, fields):
    sites_seen = 0
    for fname, fi in sorted(w.handlers.items()):
        own = fi.params[0]
        kinds = w.kinds(fi)
        cfg = w.cfg(fi)
        sites = tape_sites(w, fi)
        for s in sites:
            role = s.role()
            if role == 'plugin':
                # a tape handed to the plugin runner must carry the parent's plugins (and contracts)
                for field in ('plugins', 'contracts'):
                    e = s.field_expr(field, fields)
                    ok, why = False, f'the tape given to the plugin runner is built without the parent\'s {field}'
                    if e is not None:
                        ps = _paths_of(kinds, kinds.of(e, s.node))
                        want = f'{own}.{field}'
                        ok = bool(ps) and all(p in (want, 'copy:' + want) for p in ps)
                        why = '' if ok else f'{field} for the plugin runner comes from {ps}, not from {want}'
                    rep.check('C09.R1', f'functions.{fname}|plugin-tape|Tape({field})', ok, line=s.line, file=REL, why=why)
                continue
            if role not in ('exec', 'definition'):
                continue
            sites_seen += 1
            rep.covered('subtape_sites', f'{fname}:{s.line}:{role}')
            tag = _site_tag(fi, s, sites)
            for field in ('contracts', 'plugins', 'callstack_limit'):
                e = s.field_expr(field, fields)
                src_node = s.node
                if e is None and field in s.attr_stores:
                    # attribute store before the run
                    src_node, e = s.attr_stores[field][0]
                ok, why = False, ''
                if e is None:
                    why = f'sub-tape is built without the parent\'s {field}'
                else:
                    ps = _paths_of(kinds, kinds.of(e, src_node))
                    want = f'{own}.{field}'
                    ok = bool(ps) and all(p in (want, 'copy:' + want) for p in ps)
                    if not ok:
                        why = f'{field} comes from {ps}, not from {want}'
                rep.check('C09.R1', f'functions.{fname}|{tag}|Tape({field})', ok, line=s.line,
                          file=REL, why=why)
            if role == 'exec':
                e = s.field_expr('callstack_count', fields)
                ok, why = False, ''
                if e is None:
                    why = 'sub-tape is built with callstack_count 0 (parent\'s count dropped)'
                else:
                    ok = _count_ge_parent(e, own)
                    if not ok:
                        why = f'callstack_count `{ast.unparse(e)}` is not >= {own}.callstack_count'
                rep.check('C09.R1', f'functions.{fname}|{tag}|Tape(callstack_count)', ok,
                          line=s.line, file=REL, why=why)
        # run_tape on a tape that was not constructed here (OP_CALL: loaded from definitions)
        site_vars = {s.var for s in sites if s.var}
        for n, call in cfg.nodes_with_call(lambda c: isinstance(c.func, ast.Name) and c.func.id == 'run_tape'):
            a0 = call.args[0] if call.args else None
            if isinstance(a0, ast.Name) and a0.id in site_vars:
                continue
            k = kinds.of(a0, n) if a0 is not None else None
            loaded = k is not None and all(l.tag == 'index' and l.src.tag == 'attr'
                                           and l.src.attr == 'definitions' for l in k.leaves())
            if not loaded:
                rep.check('C09.R1', f'functions.{fname}|run_tape({ast.unparse(a0) if a0 else "?"})|origin',
                          False, line=n.line, file=REL,
                          why='run_tape on a tape that is neither constructed here nor a definition')
                continue
            sites_seen += 1
            # the count must be handed over before the run
            var = a0.id if isinstance(a0, ast.Name) else None
            ok = False
            for m in cfg.nodes:
                for ev in node_events(m):
                    if ev[0] == 'store' and isinstance(ev[1], ast.Attribute) and ev[1].attr == 'callstack_count' \
                            and isinstance(ev[1].value, ast.Name) and ev[1].value.id == var \
                            and _count_ge_parent(ev[2], own) and cfg.dominates(m, n):
                        ok = True
            rep.check('C09.R1', f'functions.{fname}|definition-run|callstack_count', ok, line=n.line,
                      file=REL, why='' if ok else 'called definition does not receive the caller\'s callstack_count')
            # and the caller's own count must have been increased under a limit guard (C07.R4)
    # top-level drivers
    rs = w.repo.func('functions', 'run_script')
    _driver_site(w, rep, rs, fields, {'contracts': 'contracts', 'plugins': 'plugins',
                                      'callstack_limit': 'callstack_limit'})
    ras = w.repo.func('functions', 'run_auth_scripts')
    kinds = w.kinds(ras)
    for s in tape_sites(w, ras):
        if s.role() != 'exec':
            continue
        sites_seen += 1
        for field in ('contracts', 'plugins', 'callstack_limit', 'callstack_count', 'definitions'):
            e = s.field_expr(field, fields)
            src_node = s.node
            if e is None and field in s.attr_stores:
                src_node, e = s.attr_stores[field][0]
            ok, why = False, ''
            if e is None:
                why = f'later scripts run without the first script\'s {field}'
            else:
                k = kinds.of(e, src_node)
                # must derive from a tape's same-named field (the previous / first tape)
                ok = all(l.tag == 'attr' and l.attr == field for l in k.leaves())
                if not ok:
                    why = f'{field} for later scripts is `{ast.unparse(e)}`, not the running configuration'
            rep.check('C09.R1', f'functions.run_auth_scripts|loop|Tape({field})', ok, line=s.line,
                      file=REL, why=why)
    # run_auth_scripts must hand its own arguments to the first run
    cfg = w.cfg(ras)
    for n, call in cfg.nodes_with_call(lambda c: isinstance(c.func, ast.Name) and c.func.id == 'run_script'):
        bound = _bind_args(rs, call)
        for p in ('cache_vals', 'contracts', 'plugins', 'stack_max_items', 'stack_max_item_size',
                  'callstack_limit'):
            e = bound.get(p)
            ok = isinstance(e, ast.Name) and e.id == p and \
                all(how == 'param' for _, how, _ in cfg.defs_reaching(p, n))
            rep.check('C09.R1', f'functions.run_auth_scripts|first|run_script({p})', ok, line=n.line,
                      file=REL, why='' if ok else f'run_auth_scripts does not pass its `{p}` argument to the first script')
    if sites_seen < 9:
        raise AnalysisError(f'only {sites_seen} execution sub-tape sites found (expected >= 9)')


def _site_tag(fi, s: TapeSite, sites) -> str:
    """Stable construct tag for a site: its role plus ordinal among same-role sites."""
    same = [x for x in sites if x.role() == s.role()]
    if len(same) == 1:
        return s.role()
    return f'{s.role()}#{same.index(s) + 1}'


def _count_ge_parent(e: ast.AST, own: str) -> bool:
    def is_parent(x):
        return isinstance(x, ast.Attribute) and x.attr == 'callstack_count' \
            and isinstance(x.value, ast.Name) and x.value.id == own
    if is_parent(e):
        return True
    if isinstance(e, ast.BinOp) and isinstance(e.op, ast.Add):
        for a, b in ((e.left, e.right), (e.right, e.left)):
            if is_parent(a) and isinstance(b, ast.Constant) and isinstance(b.value, int) and b.value >= 0:
                return True
    return False


def _bind_args(callee, call: ast.Call) -> dict:
    out = {}
    for p, a in zip(callee.params, call.args):
        out[p] = a
    for k in call.keywords:
        if k.arg:
            out[k.arg] = k.value
    return out


def _driver_site(w, rep, fi, fields, mapping):
    kinds = w.kinds(fi)
    sites = [s for s in tape_sites(w, fi) if s.role() == 'exec']
    if len(sites) != 1:
        raise AnalysisError(f'{fi.key}: expected exactly one executed Tape, found {len(sites)}')
    s = sites[0]
    for field, param in mapping.items():
        e = s.field_expr(field, fields)
        src_node = s.node
        if e is None and field in s.attr_stores:
            src_node, e = s.attr_stores[field][0]
        ok, why = False, ''
        if e is None:
            why = f'the embedder\'s {param} never reaches the tape'
        else:
            k = kinds.of(e, src_node)
            found = False
            for x in k.walk():
                if x.tag == 'param' and x.name == param:
                    found = True
            ok = found
            # the embedder's entries must win over the registry defaults: last spread
            if ok and isinstance(e, ast.Dict) and e.keys and all(kk is None for kk in e.keys):
                last = e.values[-1]
                ok = isinstance(last, ast.Name) and last.id == param
                if not ok:
                    why = f'embedder {param} do not take precedence in `{ast.unparse(e)}`'
            elif not ok:
                why = f'{field} is `{ast.unparse(e)}`, which does not include the `{param}` argument'
        rep.check('C09.R1', f'{fi.key}|top|Tape({field})', ok, line=s.line, file=REL, why=why)
    # the store must precede the run
    cfg = w.cfg(fi)
    runs = [m for r, m, _ in s.roles if r == 'exec']
    for field, stores in s.attr_stores.items():
        for m, _ in stores:
            ok = all(cfg.dominates(m, r) for r in runs)
            rep.check('C09.R1', f'{fi.key}|top|{field}-before-run', ok, line=m.line, file=REL,
                      why='' if ok else f'{field} assigned after the tape has been run')
    # Stack limits
    st = cfg.nodes_with_call(lambda c: isinstance(c.func, ast.Name) and c.func.id == 'Stack')
    for n, call in st:
        b = {k.arg: k.value for k in call.keywords if k.arg}
        for kw, param in (('max_items', 'stack_max_items'), ('max_item_size', 'stack_max_item_size')):
            e = b.get(kw)
            ok = isinstance(e, ast.Name) and e.id == param
            rep.check('C09.R1', f'{fi.key}|top|Stack({kw})', ok, line=n.line, file=REL,
                      why='' if ok else f'Stack built without the embedder\'s {param}')


# ---------------------------------------------------------------------------
# R2 / R3: abstract evaluation of set_tape_flags
# ---------------------------------------------------------------------------

class _Heap:
    """Abstract heap for one generic key: objects -> cell id; cell -> value
    ('E' embedder/parent value, 'D' registry default, None absent)."""

    def __init__(self):
        self.obj = {}
        self.cell = {}
        self._n = 0

    def new(self, value):
        self._n += 1
        self.cell[self._n] = value
        return self._n

    def get(self, o):
        return self.cell[self.obj[o]]

    def set(self, o, v):
        self.cell[self.obj[o]] = v


def _simulate_set_tape_flags(w: World, target_rel: str, add_rel: str, key_in_defaults: bool):
    """target_rel: how sub-tape.flags relates to the parent's map P: 'alias' | 'copy' | 'fresh'.
    add_rel: how additional_flags relates to P: 'alias' | 'copy' | 'empty'.
    Returns (value in sub-tape, value in parent) for one generic key present in P with value E."""
    fi = w.repo.func('functions', 'set_tape_flags')
    tp, af = fi.params[0], fi.params[1] if len(fi.params) > 1 else None
    if af is None:
        raise AnalysisError('set_tape_flags lost its additional_flags parameter')
    h = _Heap()
    h.obj['P'] = h.new('E')
    if target_rel == 'alias':
        h.obj['T'] = h.obj['P']
    elif target_rel == 'copy':
        h.obj['T'] = h.new('E')
    else:
        h.obj['T'] = h.new(None)
    if add_rel == 'alias':
        h.obj['A'] = h.obj['P']
    elif add_rel == 'copy':
        h.obj['A'] = h.new('E')
    else:
        h.obj['A'] = h.new(None)

    def is_tflags(e):
        return isinstance(e, ast.Attribute) and e.attr == 'flags' and isinstance(e.value, ast.Name) \
            and e.value.id == tp

    def obj_of(e):
        if is_tflags(e):
            return 'T'
        if isinstance(e, ast.Name) and e.id == af:
            return 'A'
        if isinstance(e, ast.Name) and e.id in ('flags',):
            return 'G'
        return None

    body = [s for s in fi.node.body
            if not (isinstance(s, ast.Expr) and isinstance(s.value, ast.Constant))]

    def cond_holds(test, keyobj):
        """Evaluate a per-key condition abstractly -> True/False/None(opaque, taken as True)."""
        if isinstance(test, ast.BoolOp) and isinstance(test.op, ast.And):
            vals = [cond_holds(v, keyobj) for v in test.values]
            if any(v is False for v in vals):
                return False
            return True
        if isinstance(test, ast.UnaryOp) and isinstance(test.op, ast.Not):
            v = cond_holds(test.operand, keyobj)
            return None if v is None else (not v)
        if isinstance(test, ast.Compare) and len(test.ops) == 1 and isinstance(test.ops[0], (ast.In, ast.NotIn)) \
                and isinstance(test.left, ast.Name) and test.left.id == keyobj:
            o = obj_of(test.comparators[0])
            if o in ('T', 'A'):
                present = h.get(o) is not None
                return present if isinstance(test.ops[0], ast.In) else not present
            if o == 'G':
                return key_in_defaults if isinstance(test.ops[0], ast.In) else not key_in_defaults
            if isinstance(test.comparators[0], ast.Name) and test.comparators[0].id == 'flags_to_set':
                return None
        return None   # type filters etc.: opaque, assumed true

    def exec_loop(st: ast.For):
        it = obj_of(st.iter)
        if isinstance(st.iter, ast.Call) and isinstance(st.iter.func, ast.Attribute) \
                and st.iter.func.attr in ('items', 'keys'):
            it = obj_of(st.iter.func.value)
        if it is None or not isinstance(st.target, (ast.Name, ast.Tuple)):
            raise AnalysisError(f'set_tape_flags: unrecognised loop `{ast.unparse(st.iter)}`')
        key = st.target.id if isinstance(st.target, ast.Name) else st.target.elts[0].id
        # does the generic key occur in the iterated collection?
        if it == 'G':
            occurs = key_in_defaults
        else:
            occurs = h.get(it) is not None
        if not occurs:
            return
        exec_block(st.body, key, it)

    def exec_block(stmts, key, it):
        for s in stmts:
            if isinstance(s, ast.If):
                c = cond_holds(s.test, key)
                if c is False:
                    exec_block(s.orelse, key, it)
                else:
                    exec_block(s.body, key, it)
            elif isinstance(s, ast.Assign) and len(s.targets) == 1 and isinstance(s.targets[0], ast.Subscript) \
                    and is_tflags(s.targets[0].value) and isinstance(s.targets[0].slice, ast.Name) \
                    and s.targets[0].slice.id == key:
                v = s.value
                src = None
                if isinstance(v, ast.Subscript) and isinstance(v.slice, ast.Name) and v.slice.id == key:
                    src = obj_of(v.value)
                if isinstance(v, ast.Name) and isinstance(st_target_value.get('name'), str) \
                        and v.id == st_target_value['name']:
                    src = it
                if src in ('A', 'T'):
                    h.set('T', h.get(src))
                else:
                    h.set('T', 'D')     # a registry default (flags[key] / False / IfExp of those)
            elif isinstance(s, ast.Continue):
                return
            elif isinstance(s, ast.Expr) and isinstance(s.value, ast.Constant):
                continue
            else:
                raise AnalysisError(f'set_tape_flags: unrecognised statement `{ast.unparse(s)[:60]}`')

    st_target_value = {}
    for s in body:
        if isinstance(s, ast.For):
            st_target_value.clear()
            if isinstance(s.target, ast.Tuple) and len(s.target.elts) == 2 and isinstance(s.target.elts[1], ast.Name):
                st_target_value['name'] = s.target.elts[1].id
            exec_loop(s)
        elif isinstance(s, ast.Assign) and len(s.targets) == 1 and isinstance(s.targets[0], ast.Name) \
                and s.targets[0].id == af:
            # snapshot: additional_flags = {**additional_flags} / dict(..) / .copy()
            v = s.value
            src = None
            if isinstance(v, ast.Dict) and len(v.keys) == 1 and v.keys[0] is None:
                src = obj_of(v.values[0])
            elif isinstance(v, ast.Call) and isinstance(v.func, ast.Name) and v.func.id == 'dict' and len(v.args) == 1:
                src = obj_of(v.args[0])
            elif isinstance(v, ast.Call) and isinstance(v.func, ast.Attribute) and v.func.attr == 'copy':
                src = obj_of(v.func.value)
            if src is None:
                raise AnalysisError(f'set_tape_flags: unrecognised rebinding `{ast.unparse(s)[:60]}`')
            h.obj['A'] = h.new(h.get(src))
        elif isinstance(s, ast.Assign) and len(s.targets) == 1 and is_tflags(s.targets[0]):
            v = s.value
            # tape.flags = {**defaults.., **additional_flags}: a fresh map
            if isinstance(v, ast.Dict) and all(k is None for k in v.keys):
                val = None
                for sp in v.values:
                    o = obj_of(sp)
                    if o == 'G':
                        val = 'D' if key_in_defaults else val
                    elif o in ('A', 'T'):
                        if h.get(o) is not None:
                            val = h.get(o)
                    else:
                        val = 'D' if key_in_defaults else val
                h.obj['T'] = h.new(val)
            else:
                raise AnalysisError(f'set_tape_flags: unrecognised flags rebinding `{ast.unparse(s)[:60]}`')
        elif isinstance(s, ast.Expr) and isinstance(s.value, ast.Call) and isinstance(s.value.func, ast.Attribute) \
                and s.value.func.attr == 'update' and is_tflags(s.value.func.value) and len(s.value.args) == 1 \
                and not s.value.keywords:
            # tape.flags.update(<A | {**A} | dict(A) | {k: v for k, v in A.items() if ..}>): the argument is
            # evaluated first, from the *current* contents of its source
            v = s.value.args[0]
            src = obj_of(v)
            if src is None and isinstance(v, ast.Dict) and len(v.keys) == 1 and v.keys[0] is None:
                src = obj_of(v.values[0])
            if src is None and isinstance(v, ast.Call) and isinstance(v.func, ast.Name) and v.func.id == 'dict' \
                    and len(v.args) == 1:
                src = obj_of(v.args[0])
            if src is None and isinstance(v, ast.DictComp) and len(v.generators) == 1:
                g = v.generators[0]
                if isinstance(g.iter, ast.Call) and isinstance(g.iter.func, ast.Attribute) and g.iter.func.attr == 'items' \
                        and isinstance(g.target, ast.Tuple) and len(g.target.elts) == 2 \
                        and all(isinstance(x, ast.Name) for x in g.target.elts) \
                        and isinstance(v.key, ast.Name) and v.key.id == g.target.elts[0].id \
                        and isinstance(v.value, ast.Name) and v.value.id == g.target.elts[1].id:
                    cand = obj_of(g.iter.func.value)
                    if cand is not None and all(cond_holds(c, g.target.elts[0].id) is not False for c in g.ifs):
                        src = cand
                    elif cand is not None:
                        src = 'skip'
            if src is None:
                raise AnalysisError(f'set_tape_flags: unrecognised update `{ast.unparse(s)[:60]}`')
            if src == 'G':
                if key_in_defaults:
                    h.set('T', 'D')
            elif src != 'skip' and h.get(src) is not None:
                h.set('T', h.get(src))
        elif isinstance(s, ast.Return):
            break
        elif isinstance(s, ast.If):
            raise AnalysisError('set_tape_flags: top-level conditional not modelled')
        else:
            raise AnalysisError(f'set_tape_flags: unrecognised statement `{ast.unparse(s)[:60]}`')
    return h.get('T'), h.get('P')


def _flags_relation(kinds, e, node, own: str) -> str:
    """How an expression relates to the parent's flag map."""
    if e is None:
        return 'fresh'
    ps = _paths_of(kinds, kinds.of(e, node))
    want = f'{own}.flags'
    if ps and all(p == want for p in ps):
        return 'alias'
    if ps and all(p == 'copy:' + want for p in ps):
        return 'copy'
    return 'other:' + ','.join(str(p) for p in ps)


def _r23(w: World, rep: Report, fields):
    # the run_tape prologue must apply set_tape_flags(tape, additional_flags)
    rt = w.repo.func('functions', 'run_tape')
    cfg = w.cfg(rt)
    calls = cfg.nodes_with_call(lambda c: isinstance(c.func, ast.Name) and c.func.id == 'set_tape_flags')
    ok = len(calls) == 1
    af_param = None
    if ok:
        n, c = calls[0]
        b = _bind_args(w.repo.func('functions', 'set_tape_flags'), c)
        a0, a1 = b.get('tape'), b.get('additional_flags')
        ok = isinstance(a0, ast.Name) and a0.id == rt.params[0] and isinstance(a1, ast.Name) \
            and a1.id in rt.params
        af_param = a1.id if ok else None
    rep.check('C09.R2', 'functions.run_tape|prologue|set_tape_flags', ok, line=rt.node.lineno, file=REL,
              why='' if ok else 'run_tape does not apply set_tape_flags(tape, additional_flags) exactly once')
    if not ok:
        return
    n_sites = 0
    for fname, fi in sorted(w.handlers.items()):
        own = fi.params[0]
        kinds = w.kinds(fi)
        cfg = w.cfg(fi)
        sites = tape_sites(w, fi)
        by_var = {}
        for s in sites:
            if s.var:
                by_var.setdefault(s.var, []).append(s)
        runs = cfg.nodes_with_call(lambda c: isinstance(c.func, ast.Name) and c.func.id == 'run_tape')
        for idx, (n, call) in enumerate(runs):
            n_sites += 1
            bound = _bind_args(rt, call)
            add = bound.get(af_param)
            add_rel = 'empty' if add is None else _flags_relation(kinds, add, n, own)
            a0 = bound.get(rt.params[0])
            # which construction reaches this run?
            t_rel = None
            if isinstance(a0, ast.Name) and a0.id in by_var:
                reach = {d[0].id for d in cfg.defs_reaching(a0.id, n)}
                rels = set()
                for s in by_var[a0.id]:
                    if s.node.id in reach:
                        fe = s.field_expr('flags', fields)
                        rels.add(_flags_relation(kinds, fe, s.node, own))
                if len(rels) == 1:
                    t_rel = rels.pop()
                else:
                    t_rel = 'other:' + '/'.join(sorted(rels))
            else:
                # a definition: its flags are whatever OP_DEF gave it - relative to the
                # defining tape; the worst case is definer == caller
                dh = w.handler_for('OP_DEF')
                dsites = [s for s in tape_sites(w, dh) if s.role() == 'definition']
                if len(dsites) != 1:
                    raise AnalysisError('OP_DEF: definition construction site not recognised')
                t_rel = _flags_relation(w.kinds(dh), dsites[0].field_expr('flags', fields),
                                        dsites[0].node, dh.params[0])
            tag = f'functions.{fname}|run_tape#{idx + 1}' if len(runs) > 1 else f'functions.{fname}|run_tape'
            facts = {'subtape_flags': t_rel, 'additional_flags': add_rel}
            if t_rel.startswith('other') or add_rel.startswith('other'):
                rep.check('C09.R2', tag, False, line=n.line, file=REL, facts=facts,
                          why=f'flags of the sub-tape ({t_rel}) / additional_flags ({add_rel}) do not '
                              f'derive from the parent\'s flags')
                continue
            res = {}
            for kd in (True, False):
                res[kd] = _simulate_set_tape_flags(w, t_rel, add_rel, kd)
            ok2 = all(res[kd][0] == 'E' for kd in res)
            ok3 = all(res[kd][1] == 'E' for kd in res)
            facts['result'] = {('default-key' if kd else 'extra-key'): list(res[kd]) for kd in res}
            why2 = '' if ok2 else ('inside the sub-tape a flag set by the embedder/parent reads '
                                   + ('the registry default' if 'D' in (res[True][0], res[False][0]) else 'as absent'))
            why3 = '' if ok3 else 'running the sub-tape overwrites the parent\'s flag entry with the registry default'
            rep.check('C09.R2', tag, ok2, line=n.line, file=REL, why=why2, facts=facts)
            rep.check('C09.R3', tag, ok3, line=n.line, file=REL, why=why3, facts=facts)
    # top level: run_script(additional_flags=...) -> fresh tape, embedder map
    rs = w.repo.func('functions', 'run_script')
    cfg = w.cfg(rs)
    for n, call in cfg.nodes_with_call(lambda c: isinstance(c.func, ast.Name) and c.func.id == 'run_tape'):
        n_sites += 1
        bound = _bind_args(rt, call)
        add = bound.get(af_param)
        ok = isinstance(add, ast.Name) and add.id == 'additional_flags' and 'additional_flags' in rs.params
        res = {}
        if ok:
            for kd in (True, False):
                res[kd] = _simulate_set_tape_flags(w, 'fresh', 'alias', kd)
            ok2 = all(res[kd][0] == 'E' for kd in res)
            ok3 = all(res[kd][1] == 'E' for kd in res)
        else:
            ok2 = ok3 = False
        rep.check('C09.R2', 'functions.run_script|run_tape', ok2, line=n.line, file=REL,
                  why='' if ok2 else 'the embedder\'s additional_flags do not govern the top-level tape')
        rep.check('C09.R3', 'functions.run_script|run_tape', ok3, line=n.line, file=REL,
                  why='' if ok3 else 'the embedder\'s additional_flags dict is modified')
    if n_sites < 8:
        raise AnalysisError(f'only {n_sites} run_tape call sites found (expected >= 8)')


# ---------------------------------------------------------------------------
# R4 plugin exactly once
# ---------------------------------------------------------------------------

def _plugin_counts(w: World, fi, carrying: bool, depth=0, memo=None):
    """Set of (count, first) over normal-exit paths: number of run_sig_extensions calls
    on a plugin-carrying tape; `first` = the plugin call preceded every stack/tape access."""
    memo = memo if memo is not None else {}
    key = (fi.key, carrying)
    if key in memo:
        return memo[key]
    if depth > 5:
        raise AnalysisError('plugin-count inlining too deep')
    cfg = w.cfg(fi)
    own = fi.params[0]
    kinds = w.kinds(fi)
    per = {}
    for n in cfg.nodes:
        evs = []
        for ev in node_events(n):
            if ev[0] != 'call':
                continue
            c = ev[1]
            nm = dotted(c.func) or ''
            if nm == 'run_sig_extensions' or (nm == 'run_plugins' and c.args and isinstance(c.args[0], ast.Constant)
                                              and c.args[0].value == 'signature_extensions'):
                targ = c.args[0] if nm == 'run_sig_extensions' else (c.args[1] if len(c.args) > 1 else None)
                evs.append(('plugin', _carrying(w, fi, kinds, n, targ, own, carrying)))
            elif isinstance(c.func, ast.Attribute) and c.func.attr in ('get', 'peek', 'read', 'put') and \
                    isinstance(c.func.value, ast.Name) and c.func.value.id in fi.params[:2]:
                evs.append(('access',))
            else:
                hc = w.handler_call(fi, c) if isinstance(c.func, ast.Name) else None
                if hc is not None:
                    evs.append(('handler', hc[0], _carrying(w, fi, kinds, n, hc[1], own, carrying)))
        per[n.id] = evs
    def process(n, states):
        for ev in per.get(n.id, ()):
            new = set()
            for (count, first_ok, accessed) in states:
                if ev[0] == 'plugin':
                    if ev[1]:
                        new.add((min(count + 1, 3), first_ok and not accessed, accessed))
                    else:
                        new.add((count, first_ok, accessed))
                elif ev[0] == 'access':
                    new.add((count, first_ok, True))
                else:
                    subs = _plugin_counts(w, ev[1], ev[2], depth + 1, memo)
                    if not subs:
                        continue        # callee never returns normally
                    for c2, f2 in subs:
                        new.add((min(count + c2, 3), first_ok and f2 and not (c2 and accessed), True))
            states = new
        return states

    IN = {n.id: set() for n in cfg.nodes}
    OUT = {n.id: set() for n in cfg.nodes}
    IN[cfg.entry.id] = {(0, True, False)}
    work = [cfg.entry]
    while work:
        n = work.pop()
        if n.kind == 'raise':
            continue
        o = set(process(n, set(IN[n.id])))
        if o != OUT[n.id] or n is cfg.entry:
            OUT[n.id] = o
            for s2, lab in n.succ:
                if lab == 'exc' and s2.kind == 'except':
                    continue
                before = len(IN[s2.id])
                IN[s2.id] |= o
                if len(IN[s2.id]) != before or (n is cfg.entry):
                    work.append(s2)
    results = {(c, f) for (c, f, a) in IN[cfg.exit.id]}
    memo[key] = results
    return results


def _carrying(w, fi, kinds, n, targ, own, self_carrying: bool) -> bool:
    """Is the tape expression a plugin-carrying tape?"""
    if targ is None:
        return False
    k = kinds.of(targ, n)
    res = []
    for leaf in k.leaves():
        if leaf.tag == 'param' and leaf.name == own:
            res.append(self_carrying)
        elif leaf.tag == 'new' and leaf.cls == 'Tape':
            pk = leaf.kws.get('plugins')
            if pk is None:
                res.append(False)
            else:
                ps = _paths_of(kinds, pk)
                res.append(self_carrying and all(p in (f'{own}.plugins', f'copy:{own}.plugins') for p in ps))
        else:
            res.append(False)
    return bool(res) and all(res)


def _r4(w: World, rep: Report):
    memo = {}
    for op in SIG_OPS_EXACTLY_ONCE:
        fi = w.handler_for(op)
        rep.covered('sig_handlers', fi.name)
        res = _plugin_counts(w, fi, True, memo=memo)
        counts = sorted({c for c, _ in res})
        ok = counts == [1] and all(f for _, f in res)
        why = ''
        if counts != [1]:
            why = f'signature-extension plugins run {counts} times over the paths of {op}, expected exactly once'
        elif not ok:
            why = 'the plugins run after the instruction has already consumed operands'
        rep.check('C09.R4', f'functions.{fi.name}|plugin-count', ok, line=fi.node.lineno, file=REL, why=why,
                  facts={'counts': counts})
    # TAPROOT: key path exactly once, script path zero (the evaluated script counts its own)
    fi = w.handler_for('OP_TAPROOT')
    res = _plugin_counts(w, fi, True, memo=memo)
    counts = sorted({c for c, _ in res})
    ok = counts == [0, 1]
    rep.check('C09.R4', 'functions.OP_TAPROOT|plugin-count', ok, line=fi.node.lineno, file=REL,
              why='' if ok else f'OP_TAPROOT runs the plugins {counts} times; expected once on the key path, '
              f'zero on the script path', facts={'counts': counts})
    # CHECK_TEMPLATE(_VERIFY): once when flag 10, zero otherwise
    for op in ('OP_CHECK_TEMPLATE', 'OP_CHECK_TEMPLATE_VERIFY'):
        fi = w.handler_for(op)
        res = _plugin_counts(w, fi, True, memo=memo)
        counts = sorted({c for c, _ in res})
        ok = counts == [0, 1]
        if ok:
            # the call must sit under a test of flag 10
            h = w.handler_for('OP_CHECK_TEMPLATE')
            cfg = w.cfg(h)
            pcs = cfg.nodes_with_call(lambda c: dotted(c.func) == 'run_sig_extensions')
            ok = len(pcs) == 1
            if ok:
                n, c = pcs[0]
                tests = [t for t in cfg.nodes if t.kind == 'test' and '10' in ast.unparse(t.ast)
                         and 'flags' in ast.unparse(t.ast)]
                edges = [(t, s, lab) for t in tests for s, lab in t.succ if lab is True]
                ok = bool(edges) and cfg.must_pass(cfg.entry, n, through_edges=edges)
        rep.check('C09.R4', f'functions.{fi.name}|plugin-count', ok, line=fi.node.lineno, file=REL,
                  why='' if ok else f'{op}: plugins run {counts} times; expected once exactly when flag 10 is set',
                  facts={'counts': counts})
    # the plugin runner itself: every plugin of the scope, once, in order, with the run's objects
    rp = w.repo.func('functions', 'run_plugins')
    # one iteration construct over the scope's plugin list: a for statement or a comprehension
    fors = [n for n in ast.walk(rp.node) if isinstance(n, ast.For)]
    comps = [n for n in ast.walk(rp.node) if isinstance(n, (ast.ListComp, ast.GeneratorExp))]
    ok, why = len(fors) + len(comps) == 1, 'run_plugins does not have exactly one loop over the plugins'
    if ok:
        scope_p, tape_p, stack_p, cache_p = rp.params[:4]
        if fors:
            f = fors[0]
            it_node, target, body_nodes = f.iter, f.target, list(ast.walk(f))
            filtered = any(isinstance(n, (ast.Break, ast.Continue, ast.Return, ast.If, ast.Try)) for n in ast.walk(f))
        else:
            c = comps[0]
            ok = len(c.generators) == 1
            it_node, target = c.generators[0].iter, c.generators[0].target
            body_nodes = list(ast.walk(c.elt))
            filtered = bool(c.generators[0].ifs) or any(isinstance(n, ast.IfExp) for n in ast.walk(c.elt))
            if isinstance(c, ast.GeneratorExp):
                # a lazy generator runs the plugins only as far as it is consumed
                par = [p for p in ast.walk(rp.node) if isinstance(p, ast.Call) and c in p.args]
                filtered = filtered or not (par and isinstance(par[0].func, ast.Name) and par[0].func.id in ('list', 'tuple'))
        it = ast.unparse(it_node).replace(' ', '')
        # `plugins[scope]` under a presence test, or `plugins.get(scope, [])`
        if it not in (f'{tape_p}.plugins[{scope_p}]', f'{tape_p}.plugins.get({scope_p},[])', f'{tape_p}.plugins.get({scope_p},())'):
            ok, why = False, f'the loop iterates `{it}`, not the tape\'s plugins of the requested scope'
        calls = [n for n in body_nodes if isinstance(n, ast.Call) and isinstance(n.func, ast.Name)
                 and n.func.id == ast.unparse(target)]
        if ok and (len(calls) != 1 or [ast.unparse(a) for a in calls[0].args] != [tape_p, stack_p, cache_p]):
            ok, why = False, 'a plugin is not called exactly once per iteration with (tape, stack, cache)'
        if ok and filtered:
            ok, why = False, 'the plugin loop can skip or stop early (break / continue / condition / try / lazy generator)'
    rep.check('C09.R4', 'functions.run_plugins|every-plugin-once', ok, line=rp.node.lineno, file=REL, why='' if ok else why)
    rse = w.repo.func('functions', 'run_sig_extensions')
    calls = [n for n in ast.walk(rse.node) if isinstance(n, ast.Call) and dotted(n.func) == 'run_plugins']
    ok = len(calls) == 1 and [ast.unparse(a) for a in calls[0].args] == ["'signature_extensions'"] + rse.params[:3]
    rep.check('C09.R4', 'functions.run_sig_extensions|delegates', ok, line=rse.node.lineno, file=REL,
              why='' if ok else 'run_sig_extensions does not run the signature_extensions scope on its own (tape, stack, cache)')
    # nobody else runs the signature extensions
    allowed = {w.handler_for(o).name for o in SIG_OPS_EXACTLY_ONCE + ('OP_TAPROOT', 'OP_CHECK_TEMPLATE',
                                                                      'OP_CHECK_TEMPLATE_VERIFY')}
    for fname, fi in sorted(w.handlers.items()):
        if fname in allowed:
            continue
        res = _plugin_counts(w, fi, True, memo=memo)
        counts = sorted({c for c, _ in res})
        direct = any((dotted(c.func) or '') == 'run_sig_extensions' for _, c in
                     w.cfg(fi).nodes_with_call(lambda c: True))
        if direct:
            rep.check('C09.R4', f'functions.{fname}|plugin-count', False, line=fi.node.lineno, file=REL,
                      why='handler outside the signature-related set runs the signature extensions')


# ---------------------------------------------------------------------------
def _r5(w: World, rep: Report):
    allowed = {'functions.set_tape_flags', 'functions.' + w.handler_for('OP_SET_FLAG').name,
               'functions.' + w.handler_for('OP_UNSET_FLAG').name}
    flag_keys = set(type(k).__name__ for k in w.repo.table('functions', 'flags'))
    for fi in w.repo.all_funcs(['functions', 'classes', 'parsing', 'tools']):
        if fi.module.name == 'tools' and fi.name in ('repl',):
            continue
        cfg = w.cfg(fi)
        writes = []
        for n in cfg.nodes:
            for ev in node_events(n):
                tgt = None
                if ev[0] in ('store', 'del') and isinstance(ev[1], ast.Subscript):
                    tgt = ev[1].value
                if ev[0] == 'aug' and isinstance(ev[1].target, ast.Subscript):
                    tgt = ev[1].target.value
                if ev[0] == 'call' and isinstance(ev[1].func, ast.Attribute) and ev[1].func.attr in (
                        'update', 'pop', 'clear', 'setdefault', 'popitem', '__setitem__', '__delitem__'):
                    tgt = ev[1].func.value
                if isinstance(tgt, ast.Attribute) and tgt.attr == 'flags':
                    writes.append((n, ev))
                if ev[0] == 'store' and isinstance(ev[1], ast.Attribute) and ev[1].attr == 'flags' \
                        and fi.key not in allowed and not (fi.cls == 'Tape'):
                    writes.append((n, ev))
        if not writes:
            continue
        ok = fi.key in allowed
        rep.check('C09.R5', f'{fi.key}|writes-flags', ok, line=writes[0][0].line,
                  file=w.repo.rel(fi.module.path),
                  why='' if ok else 'flags are written outside set_tape_flags / OP_SET_FLAG / OP_UNSET_FLAG')
    # key type in the two flag instructions
    for op in ('OP_SET_FLAG', 'OP_UNSET_FLAG'):
        fi = w.handler_for(op)
        cfg = w.cfg(fi)
        kinds = w.kinds(fi)
        kk = None
        line = fi.node.lineno
        for n in cfg.nodes:
            for ev in node_events(n):
                if ev[0] in ('store', 'del') and isinstance(ev[1], ast.Subscript) and \
                        isinstance(ev[1].value, ast.Attribute) and ev[1].value.attr == 'flags':
                    kk = kinds.of(ev[1].slice, n)
                    line = n.line
        if kk is None:
            raise AnalysisError(f'{op}: flag store/delete not found')
        tags = {l.tag for l in kk.leaves()}
        is_bytes = tags <= {'tape_read', 'stack_item', 'slice'}
        ok = not is_bytes
        rep.check('C09.R5', f'functions.{fi.name}|flag-key-type', ok, line=line, file=REL,
                  why='' if ok else f'flag key is raw bytes ({sorted(tags)}) but flags are keyed by '
                  f'{sorted(flag_keys)}: the instruction can never name a flag',
                  facts={'key_kind': repr(kk), 'flag_key_types': sorted(flag_keys)})


def _r6(w: World, rep: Report):
    fields = tape_fields(w)
    n_stack = 0
    for fname, fi in sorted(w.handlers.items()):
        kinds = w.kinds(fi)
        cfg = w.cfg(fi)
        for s in tape_sites(w, fi):
            if s.role() != 'exec':
                continue
            data = s.field_expr('data', fields)
            if data is None:
                continue
            k = kinds.of(data, s.node)
            from_stack = any(x.tag == 'stack_item' for l in k.leaves() for x in l.walk())
            if not from_stack:
                continue
            n_stack += 1
            tests = []
            for t in cfg.nodes:
                if t.kind == 'test' and isinstance(t.ast, ast.Compare) and len(t.ast.ops) == 1 \
                        and isinstance(t.ast.left, ast.Constant) and isinstance(t.ast.left.value, str) \
                        and t.ast.left.value.startswith('disallow_') \
                        and dotted(t.ast.comparators[0]) == f'{fi.params[0]}.flags':
                    want = isinstance(t.ast.ops[0], ast.NotIn)
                    for succ, lab in t.succ:
                        if lab is want:
                            tests.append((t, succ, lab))
            runs = [m for r, m, _ in s.roles if r == 'exec']
            ok = bool(tests) and all(cfg.must_pass(cfg.entry, r, through_edges=tests) for r in runs)
            # the guard must fail with the script-error class
            if ok:
                for t, succ, lab in tests:
                    for s2, l2 in t.succ:
                        if l2 is not lab and cfg.raise_class_of(s2) != 'ScriptExecutionError':
                            ok = False
            rep.check('C09.R6', f'functions.{fname}|eval-of-stack-data|disallow-guard', ok, line=s.line,
                      file=REL, why='' if ok else 'a stack-supplied script is run without the disallow_OP_EVAL guard')
    rep.check('C09.R6', 'functions|stack-derived-exec-sites', n_stack == 1, file=REL,
              why='' if n_stack == 1 else f'{n_stack} handlers run stack-derived data (expected: OP_EVAL only)',
              facts={'sites': n_stack})
