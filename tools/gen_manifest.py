#!/usr/bin/env python3
"""Regenerates /verif/MANIFEST.json from the table below (kept in one place so the
manifest stays valid and in step with the rules modules)."""
import json, os, sys
HERE = os.path.dirname(os.path.dirname(os.path.abspath(__file__)))
sys.path.insert(0, HERE)

CLAIMED = {
 'C01': dict(
    level='other', ref='DESIGN.md 4 C01',
    technique='ast typestate + dominator analysis (return-flag state machine over the CFG of run_auth_scripts/run_tape; try/except coverage; guard dominance)',
    text='Static decision of the structural clauses of C01 on the current source: the RETURN control flag is provably clear at every later script start (typestate over all CFG paths), every raising step sits under a handler that catches all package exception classes and returns False, and return True is dominated by has_terminated() per tape, len(stack)==1 and item==0xff. It does not decide per-opcode raising behaviour.',
    note='Trusted: CPython ast, the tsa analyser; assumes C06.R1 (checked separately) and that python is not run with -O.'),
}

NOT_APPLICABLE = {
 'C10': 'Arithmetic exactness of a float-log2-sized integer codec: quantifies over runtime values; no structural clause is both necessary and silent on today\'s correct code (DESIGN.md 4 C10).',
 'C18': 'Group-algebra identities and release-order histories through opaque libsodium calls; the only structural facts would be frozen-fragment proxies (DESIGN.md 4 C18).',
}

PENDING_REASON = 'static analysis for this property is not built yet in this revision of /verif (see DESIGN.md 10 build order); not claimed until its check exists'
ALL = [f'C{i:02d}' for i in range(1, 21)]

def main():
    checks = []
    for pid in ALL:
        if pid not in CLAIMED:
            continue
        c = CLAIMED[pid]
        checks.append({
            'property_id': pid,
            'quick_cmd': f'./check {pid} --tier quick',
            'thorough_cmd': f'./check {pid} --tier thorough',
            'evidence_file': f'/verif/evidence/{pid}.json',
            'replay_cmd_template': './check --replay {path}',
            'engine': 'tsa',
            'level_claimed': {'category': c['level'], 'text': c['text'], 'design_ref': c['ref']},
            'level_note': c['note'],
            'technique': c['technique'],
        })
    na = []
    for pid in ALL:
        if pid in CLAIMED:
            continue
        na.append({'property_id': pid, 'reason': NOT_APPLICABLE.get(pid, PENDING_REASON)})
    m = {
        'version': 1,
        'setup_cmd': './check --selfcheck',
        'hooks': {
            'guard': 'TAPESCRIPT_VERIF',
            'enable': 'none needed: the analyser reads /repo source with ast and never builds or runs it; the guard variable is unused',
            'baseline_off_cmd': 'cd /repo && /venv/bin/python -m pytest -ra -q -p no:cacheprovider --timeout=900 --continue-on-collection-errors',
            'source_commits': [],
            'add_only': True,
        },
        'engines': [{
            'name': 'tsa',
            'path': '/verif/tsa',
            'serves_properties': sorted(CLAIMED),
            'kind_free_text': 'repository-specific static analyser on Python ast: resolver + table evaluator, statement CFG with guard edges and dominators, reaching definitions / value kinds, handler summaries, linear atoms with truth tables, tapescript template typing',
        }],
        'checks': checks,
        'not_applicable': na,
        'notes': 'Static analysis only: no check imports or executes repository code. Exit 2 + ANALYSIS-ERROR means the analyser could not decide (anchor vanished / unrecognised idiom); it is never used to hide a violation. Known findings: /verif/known_findings.json.',
    }
    with open(os.path.join(HERE, 'MANIFEST.json'), 'w') as f:
        json.dump(m, f, indent=1)
    print('wrote MANIFEST.json with', len(checks), 'checks;', len(na), 'not applicable')

if __name__ == '__main__':
    main()
