#!/usr/bin/env python3
"""Regenerates /verif/MANIFEST.json from the table below (kept in one place so the
manifest stays valid and in step with the rules modules)."""
import json, os, sys
HERE = os.path.dirname(os.path.dirname(os.path.abspath(__file__)))
sys.path.insert(0, HERE)

CLAIMED = {
 'C02': dict(
    level='other', ref='DESIGN.md 4 C02',
    technique='ast symbolic walk with constant-loop unrolling and local substitution to extract the flag/field tables; finite-domain evaluation of the extracted conditions (all 256 flag bytes x a grid of allowed operands, all lengths 0..80) by a small interpreter of pure expression syntax instead of matching their spelling; def-use and who-reads/who-verifies rules; guard dominance with linear atoms',
    text='Decides the flag-table and plumbing clauses of C02 that a sampled test cannot (an error confined to one bit passes the suite): bit<->field bijection of the message builder and of the template check, per-bit subset check of the allowed-flags operand with equal masks before verification, one message builder shared by sign and check and fed the right flag byte, length guards dominating verification, and the true/false result mapping around verify. Ed25519 validity itself and corruption soundness are cryptographic and not decided.',
    note='Trusted: CPython ast, tsa analyser, PyNaCl verify/sign, nacl.bindings length constants (32/64). Stack items assumed bytes (C07.R1).'),
 'C03': dict(
    level='other', ref='DESIGN.md 4 C03',
    technique='ast CFG rules on OP_CHECK_MULTISIG: success-edge consumption of the matched key (must-pass-through), exact verdict condition by linear-atom equivalence, operand-order agreement across VM / compiler / decompiler; index-space typing of used-set idioms; the single-signature rules C02.R2-R4 re-evaluated as obligations',
    text='Decides the structural clauses of the threshold claim: on the success edge of the inner check the matched key leaves the candidate set before the next signature (so two signatures by one key cannot both count), confirmed signatures are a set grown only on that edge and only on the strength of the item popped after the inner check of the same iteration (not a memo or cache entry), true is put exactly when all m are confirmed, (flags, m, n) order agrees between VM, compiler and decompiler, and the inner check gets the rewound allowed-flags tape. Order independence rests on a cryptographic fact and is not decided.',
    note='Trusted: CPython ast, tsa analyser.'),
 'C04': dict(
    level='other', ref='DESIGN.md 4 C04',
    technique='ast ordering rule on OP_MERKLEVAL (verify-class comparison with the tape root must directly precede OP_EVAL, no path around it) plus integrity typing of every builder template that evals (eval operand trusted or authenticated on every path)',
    text='Decides the binding clause of C04 in its structural form: in the VM the supplied script reaches OP_EVAL only after a verifying comparison with the 32-byte tape root with nothing in between, the comparison primitives are verify-class, and in every builder template containing eval the operand is a template constant or authenticated (equal_verify against a trusted commitment / check_sig_stack-verify under a trusted key) on every path. Root formulas, completeness for every tree shape and pack/unpack round trips are value-level and not decided.',
    note='Trusted: CPython ast, tsa analyser; hash ops assumed binding.'),
 'C05': dict(
    level='other', ref='DESIGN.md 4 C05',
    technique='ast CFG edge-dominance on OP_TAPROOT (eval only through the root-match edge, evaluated item is the hashed script, key path fed root + operand flags + plugins) and template typing of the non-native taproot lock; purity rule for Script.commitment(); dependency obligations on DEF binding (C06.R6) and point aggregation (C17.R4); def-use (value-kind) rule that every hand-made builder signature signs the item its VM signing run left on the stack; sigflags / sigfields plumbing of the taproot witness builders',
    text='Decides exactness of the two spend paths structurally: the committed script runs only on the edge where the recomputed point equals the popped root and it is the very item that was hashed; a mismatch puts false without evaluating; the key path checks under the root with the operand flags and the parent plugins; the non-native lock types with its eval operand authenticated against the trusted root and is stack-compatible with both witnesses; the key-spend builder signs exactly the message the VM builds from the sigfields of the caller (never one it assembles itself) and carries its flag byte. The algebraic identity of the root and native/non-native verdict equivalence are not decided.',
    note='Trusted: CPython ast, tsa analyser; hash/point commitments assumed binding.'),
 'C06': dict(
    level='other', ref='DESIGN.md 4 C06',
    technique='ast typestate invariant over all sub-tape handlers (return-flag scoping), alias/copy classification of EVAL sub-tape fields, cross-table agreement query (VM table vs docs.md vs language_spec.md vs compiler/decompiler case labels), and an abstract counting interpretation of every handler over path sets (depth, low-water mark, operand stream) compared per operand sample with a hand-transcribed table of the documented stack effect and operand layout; def-use rule that typed instructions decode what they pop with the decoder of their documented operand type',
    text='Decides the clauses of C06 whose truth is in the shape of the code: RETURN scoping as an inductive invariant over every handler that runs a sub-tape (IF/IF_ELSE/TRY_EXCEPT transparent, CALL consumes, EVAL consumes unless eval_return, nothing may raise while the flag is pending), EVAL isolation (definitions and flags are copies), agreement of the five opcode tables, DEF binding unconditionally and giving the body the very definition table of the defining tape (late binding) / CALL running the named binding with the pointer of the definition tape saved, rewound and restored, and - for every op whose effect is a function of its tape operands - that every non-raising path needs and changes the stack depth exactly as documented for each operand sample including the boundary values 0/1/128/255, and reads exactly the documented operand fields. Which value an op computes (operand orders, numeric results, value-level boundary behaviour) quantifies over runtime values and is not decided.',
    note='Trusted: CPython ast, tsa analyser. Assumes handlers are reached only via run_tape dispatch or the handler->handler calls in the call graph.'),
 'C07': dict(
    level='other', ref='DESIGN.md 4 C07',
    technique='ast who-may-call / guard-exactness / taint analysis: storage-access inventory, dominator + linear-atom truth tables for the limit guards, read-size kind classification, call-graph cycles through run_tape with depth-guard dominance, loop-variant recognition, value-taint from script-chosen integers to allocation sinks; return-shape rule for the Stack accessors (a stored item or raise) and a cannot-raise rule for guard messages of the VM classes',
    text='Decides necessary structural conditions of C07 on every run: all stack growth goes through the checked put and its three guards are exact (so the maxlen deque can never silently drop an item), Tape bounds are exact, no read size can be negative, tape.pointer is written only by its owners, recursion through run_tape is depth-accounted (four known findings), sequential drivers carry the call count of the tape that ran last into the next one, every loop has a recognised termination variant (for the counter-bounded OP_LOOP: guard first, counter strictly increased on every back edge, and start value and strictness of the guard admitting at most `limit` iterations), and no script-chosen integer reaches an allocation sink unbounded. Memory of big-integer arithmetic and non-limit Python exceptions are not decided.',
    note='Trusted: CPython ast, tsa analyser, deque/bytes semantics. Known findings (uncounted nesting of IF/IF_ELSE/TRY_EXCEPT/LOOP) listed in known_findings.json.'),
 'C08': dict(
    level='proof', ref='DESIGN.md 4 C08',
    technique='ast who-may-write analysis: interprocedural fixpoint of cache holders, key-kind classification of every dict mutation site, in-place-mutation and escape rules; key-kind classification of every lookup of the read accessor OP_GET_VALUE',
    text='Proof by exhaustive site enumeration: every statement that can mutate the run cache in any function reachable from run_tape (and in the top-level drivers) is found by an interprocedural who-holds-the-cache fixpoint, and each is shown to use a key whose kind cannot be str (bytes constant, bytes from tape/stack, or the private tuple sentinel); values loaded under str keys are never mutated in place and the cache never escapes to unanalysed code. With Python dict semantics and the premise of the property (no plugin/contract) this implies str-keyed entries are unchanged at every step of every script. All obligations must discharge for the proof level; evidence downgrades itself to other otherwise.',
    note='Trusted base: CPython ast, the tsa analyser, Python dict semantics; Tape.read returns bytes and Stack.put admits only bytes (both re-checked on every run as C08.T).'),
 'C09': dict(
    level='other', ref='DESIGN.md 4 C09',
    technique='ast who-flows-where analysis over every Tape(...) construction and run_tape call site, abstract evaluation of set_tape_flags under aliasing, path-count dataflow for plugin runs, who-may-write rule for flags, guard dominance',
    text='For every sub-tape construction site and run_tape call site in the VM the check proves that contracts, plugins, call limits and the flag map of the parent govern the nested execution (including an abstract evaluation of set_tape_flags under the alias relation between sub-tape flags, additional_flags and the parent map), that signature-extension plugins run exactly once and first in each signature-related handler, that only the flag instructions write flags, and that evaluation of stack data sits behind the disallow guard. Complete for these configuration kinds over all nesting contexts because every context is one of the enumerated sites.',
    note='Trusted: CPython ast, tsa analyser. Flag keys assumed str/int. Known finding: SET_FLAG/UNSET_FLAG use bytes keys (listed in known_findings.json).'),
 'C11': dict(
    level='other', ref='DESIGN.md 4 C11',
    technique='ast exhaustiveness query over the compiler dispatch, abstract interpretation of each encoder helper to derive its emitted operand shape and sibling cross-check against the VM handler tape-read shape, terminator-advance uniformity rule over the six block parsers, interval partition of the PUSH size guards, int-typed def-use rule that numbers parsed from the source reach their encoder unreduced (no mask / modulo / shift / clamp / slice)',
    text='Decides the structural clauses of C11: every VM op has exactly one compiler case, the operand shape each encoder helper emits on all non-raising paths equals what the VM handler reads, block parsers advance by one over their own terminators (the END_IF defect, now fixed), the PUSH size guards partition [1,65535] exactly with matching prefix widths and opcodes, statement parts are concatenated in source order, and a number written in the source is never reduced before or after encoding (an operand that does not fit is refused, not wrapped). Tokenizer behaviour on arbitrary text, value-prefix parsing, macros, variables and comptime are not decided.',
    note='Trusted: CPython ast, tsa analyser. Encoder paths whose payload is provably still a str are treated as rejected (b"".join raises).'),
 'C12': dict(
    level='other', ref='DESIGN.md 4 C12',
    technique='ast termination argument (read-size kind classification per match arm, loop-progress and well-founded-recursion rules) plus sibling cross-check decompiler arms vs VM handler tape-read shapes and formatter/domain classification against the compiler helpers (accepted decimal range derived from the guards of the helper by interval facts along its non-raising paths)',
    text='Termination of decompile_script is decided as a structural proof on the current source: every read size in every arm (and in the generated soft-fork handler) is a non-negative constant or unsigned decode, every loop iteration consumes at least one byte, recursion is only on bytes read from the same tape, and Tape.read is bounded - hence the pointer strictly increases below len(script) and recursion is well founded. The round trip is decided only structurally: each arm reads exactly the operand shape its VM handler reads, operands reach the listing through injective formatters, and the printed domain is accepted by the compiler helper. Byte equality for every program is not decided.',
    note='Trusted: CPython ast, tsa analyser. Out of scope: decompiler handlers registered by third parties. Known finding: DIV_INT/MOD_INT lossy print.'),
 'C13': dict(
    level='other', ref='DESIGN.md 4 C13-C15',
    technique='static typing of the tapescript templates embedded in tools.py: template extraction from the builder ast (f-string holes with provenance), a stack-effect and integrity type system (trusted/untrusted/authenticated labels, authentication fixpoint at path end), arities cross-checked against abstract counting summaries of the real handlers',
    text='Necessary structural conditions of "exactly the intended holder can unlock" for single-sig (both layouts), multisig, script-hash, graftroot and graftap: each lock is stack-compatible with its builder-made witness, with an arbitrary adversarial stack every signature-check key and every evaluated script is a template constant or authenticated against one and the verdict derives from a check, sigflags reaches every check and the signing op, every builder parameter is used. That the right trusted key is used, cross-pairing rejection and cryptography are not decided.',
    note='Trusted: CPython ast, tsa analyser (template engine E6). Assumes hash/point commitments binding and fixed-length concatenated commitments.'),
 'C14': dict(
    level='other', ref='DESIGN.md 4 C13-C15',
    technique='same template type system: authentication of certificate slices through split/copy ancestry from a verified check_sig_stack message, time-window rules over the boolean sub-domain, recursion typed under a call-site-checked assumption',
    text='Necessary structural conditions of the delegation locks: every certificate slice that decides something (delegate key, begin, end, may-delegate) descends from the message of a verified check_sig_stack under the authorising key, both window bounds are enforced with the negated upper bound after a verified lower bound, further delegation needs the authenticated flag, the recursive chain call is typed under an assumption checked at each call site, split offsets match the Certificate layout, no parsed field is dead, positional constructor arguments land in the field they are named after. Certificate pack/unpack round trip and cryptography are not decided.',
    note='Trusted: CPython ast, tsa analyser; ed25519 unforgeability.'),
 'C15': dict(
    level='other', ref='DESIGN.md 4 C13-C15',
    technique='same template type system plus path rules: refund key only behind a verified time check on int(time())+timeout, hash-lock idiom shape, sigflags and parameter plumbing',
    text='Necessary structural conditions of the four HTLC locks and the PTLC lock: stack compatibility with the builder witnesses, keys trusted or authenticated by their hash commitment, the refund key accepted only on the path with a verified check_timestamp on int(time())+timeout and never on the claim arm, the claim arm selected by comparing the hash (with the builder hash size) of the witness preimage with the template digest, sigflags and every parameter plumbed. Which trusted key is the receiver and cryptography are not decided.',
    note='Trusted: CPython ast, tsa analyser.'),
 'C16': dict(
    level='other', ref='DESIGN.md 4 C16',
    technique='ast decision-table extraction: CFG path conditions of the handler canonicalised to linear atoms and compared with the documented formula by exhaustive truth table; base;verify shape rule; (builders: template boolean domain); dependency obligation that no code stores under a str key of the run cache (the supplied timestamp is never replaced)',
    text='The property touches its values only through comparisons, so the orderings are finite: the if/elif/else formula of OP_CHECK_TIMESTAMP and OP_CHECK_EPOCH is extracted from the CFG (locals substituted, comparisons canonicalised to L >= 0 atoms) and shown equal to the documented formula on every assignment of the atoms - exhaustive over orderings including every boundary; the constraint decode is checked unsigned and the _VERIFY forms are base;verify. The three timestamp lock builders are decided by composing these tables over the embedded templates (C16.R4).',
    note='Trusted: CPython ast, tsa analyser. Assumes the presence/type guards before the comparison only reject malformed inputs, and that push d<ts> and the unsigned decode agree for ts >= 0.'),
 'C17': dict(
    level='other', ref='DESIGN.md 4 C17',
    technique='ast term-shape comparison: the Fiat-Shamir challenge input of each adapter maker (locals inlined down to stack pops and library calls) against the checker\'s; value-kind (def-use) classification of what decryption puts on every path; who-reads-the-cache rule for the adapter ops; fold-completeness rule for the aggregation helpers',
    text='Narrow by design: decides one necessary condition of "the adapter passes the adapter check" - both makers must hash the same term shape as the checker (aggregate of nonce point and tweak point, key, message) - that decryption puts exactly RT = R + T and s = sa + t computed from the popped operands on every path, that no adapter instruction reads the cache (a value left by another adapter cannot flow into a result), and that aggregate_points / aggregate_scalars fold every element they are given. The identities for all scalars, clamping edge cases and corruption soundness are group algebra through opaque libsodium calls and are not decided (they quantify over runtime values).',
    note='Trusted: CPython ast, tsa analyser. Known finding: the PRIVATE maker (listed in known_findings.json).'),
 'C19': dict(
    level='other', ref='DESIGN.md 4 C19',
    technique='interprocedural write-effect summaries (fixpoint over the call graph) used for an iteration/mutation conflict rule, a who-may-write rule for the module-level registries with call-graph unreachability from run/compile entry points, guard dominance for set semantics, a mutable-default escape rule, alias tracking through constructor keywords and method calls, a shared-entry-object rule for registry initialisers, and a no-memoisation rule over every function of the package',
    text='Decides the history channels of C19 on the source: no collection is structurally mutated while iterated (directly or via callees), registries are written only by the add_/remove_/reset_ API and no run/compile entry point or handler can reach a writer, the API has insert-if-absent / delete-if-present shape and compares entries by equality on both sides (never by identity), no mutable default that a caller can take is mutated through forwarding, and the embedder dictionaries are only read or copied. Set semantics over arbitrary histories (e.g. interfaces keyed by __name__) is not decided.',
    note='Trusted: CPython ast, tsa analyser; call graph = direct calls through resolved names plus run_tape dispatch to every registered handler.'),
 'C20': dict(
    level='other', ref='DESIGN.md 4 C20',
    technique='table evaluation from the module body (dispatch totality over 0..255), effect-set extraction of the NOP handler, sibling cross-check of the one-byte operand across VM / compiler / decompiler / generated soft-fork handlers, coherence rule for add_opcode, dependency obligation that the decimal range the decompiler prints for the NOP operand is accepted by the NOP encoder',
    text='Decides the structural clauses of C20: the op and NOP tables partition all 256 byte values and run_tape falls back to the NOP table, NOP has exactly the effect set {read one signed byte, guard count >= 0, pop count items} and no failure condition beyond a negative count or too few items, every party (VM, compiler, decompiler, both generated soft-fork handlers) agrees on exactly one operand byte, and add_opcode / add_soft_fork keep the four tables and the parsing handlers coherent. Upgraded-vs-old VM verdict equivalence needs the semantics of the forked op and is not decided.',
    note='Trusted: CPython ast, tsa analyser (restricted constant evaluator for the module-level tables).'),
 'C01': dict(
    level='other', ref='DESIGN.md 4 C01',
    technique='ast typestate + dominator analysis (return-flag state machine over the CFG of run_auth_scripts/run_tape; try/except coverage; guard dominance)',
    text='Static decision of the structural clauses of C01 on the current source: the RETURN control flag is provably clear at every later script start (typestate over all CFG paths), every raising step sits under a handler that catches all package exception classes and returns False, and return True is dominated by has_terminated() per tape, len(stack)==1 and item==0xff. It does not decide per-opcode raising behaviour.',
    note='Trusted: CPython ast, the tsa analyser; assumes C06.R1 (checked separately) and that python is not run with -O.'),
}

NOT_APPLICABLE = {
 'C10': 'Arithmetic exactness of a float-log2-sized integer codec: quantifies over runtime values; no structural clause is both necessary and silent on today\'s correct code (DESIGN.md 4 C10).',
 'C18': 'Group-algebra identities and release-order histories through opaque libsodium calls; the only structural facts would be frozen-fragment proxies (DESIGN.md 4 C18).',
}

PENDING_REASON = 'static analysis for this property is not built yet in this revision of /verif (see DESIGN.md 10 build order); not claimed until its check exists'
ALL = [f'C{i:02d}' for i in range(1, 21)]

def main():
    checks = []
    for pid in ALL:
        if pid not in CLAIMED:
            continue
        c = CLAIMED[pid]
        checks.append({
            'property_id': pid,
            'quick_cmd': f'./check {pid} --tier quick',
            'thorough_cmd': f'./check {pid} --tier thorough',
            'evidence_file': f'/verif/evidence/{pid}.json',
            'replay_cmd_template': './check --replay {path}',
            'engine': 'tsa',
            'level_claimed': {'category': c['level'], 'text': c['text'], 'design_ref': c['ref']},
            'level_note': c['note'],
            'technique': c['technique'],
        })
    na = []
    for pid in ALL:
        if pid in CLAIMED:
            continue
        na.append({'property_id': pid, 'reason': NOT_APPLICABLE.get(pid, PENDING_REASON)})
    m = {
        'version': 1,
        'setup_cmd': './check --selfcheck',
        'hooks': {
            'guard': 'TAPESCRIPT_VERIF',
            'enable': 'none needed: the analyser reads /repo source with ast and never builds or runs it; the guard variable is unused',
            'baseline_off_cmd': 'cd /repo && /venv/bin/python -m pytest -ra -q -p no:cacheprovider --timeout=900 --continue-on-collection-errors',
            'source_commits': [],
            'add_only': True,
        },
        'engines': [{
            'name': 'tsa',
            'path': '/verif/tsa',
            'serves_properties': sorted(CLAIMED),
            'kind_free_text': 'repository-specific static analyser on Python ast: resolver + table evaluator, statement CFG with guard edges and dominators, reaching definitions / value kinds, handler summaries, linear atoms with truth tables, tapescript template typing',
        }],
        'checks': checks,
        'not_applicable': na,
        'notes': 'Static analysis only: no check imports or executes repository code. Exit 2 + ANALYSIS-ERROR means the analyser could not decide (anchor vanished / unrecognised idiom); it is never used to hide a violation. Known findings: /verif/known_findings.json.',
    }
    with open(os.path.join(HERE, 'MANIFEST.json'), 'w') as f:
        json.dump(m, f, indent=1)
    print('wrote MANIFEST.json with', len(checks), 'checks;', len(na), 'not applicable')

if __name__ == '__main__':
    main()
