#!/bin/sh
# usage: tools/try_patch_edit.sh <patch.diff> '<sed expr on tapescript/*.py>' PROP [PROP...]
# applies the patch to a scratch copy of /repo, then a sed edit (to break the refactored form), then runs quick checks
patch=$1; shift; expr=$1; shift
d=$(mktemp -d /dev/shm/tp.XXXXXX)
mkdir -p $d/repo $d/ev
git -C /repo archive HEAD | tar -x -C $d/repo
(cd $d/repo && { [ ! -s "$patch" ] || patch -s -p1 < "$patch"; } && cp -r tapescript ../before && sed -i -E "$expr" tapescript/*.py && diff -r ../before tapescript | head -20)
for p in "$@"; do
  TSA_REPO=$d/repo TSA_EVIDENCE_DIR=$d/ev /verif/check $p 2>&1 | grep -v conda | grep "VIOLATION\|ANALYSIS-ERROR\|rule=\|: exit" | cut -c1-300
done
rm -rf $d
