#!/venv/bin/python
"""Development-time survey (not a registered check): generic mutation operators over the package, the test suite as
a filter (only mutants the suite does not notice are interesting), then every quick check on each survivor.

    tools/mutsurvey.py --n 400 --seed 1 --out /dev/shm/mutsurvey.json [--files functions.py,parsing.py]

Prints the survivors no check reports, for triage (equivalent mutant / outside every property / a miss)."""
from __future__ import annotations
import argparse
import ast
import json
import os
import random
import shutil
import subprocess
import sys
import tempfile
from concurrent.futures import ThreadPoolExecutor

REPO = '/repo'
PROPS = ['C01', 'C02', 'C03', 'C04', 'C05', 'C06', 'C07', 'C08', 'C09', 'C11', 'C12', 'C13', 'C14', 'C15', 'C16', 'C17', 'C19', 'C20']
DESELECT = ['tests/test_e2e_extensions.py::TestPlugins::test_add_opcode_parsing_handlers_e2e',
            'test_add_soft_fork_e2e', 'test_add_soft_fork_merklized_script_e2e', 'test_add_opcode_parsing_handlers_e2e']

CMP = {ast.Lt: '<=', ast.LtE: '<', ast.Gt: '>=', ast.GtE: '>', ast.Eq: '!=', ast.NotEq: '==', ast.In: 'not in',
       ast.NotIn: 'in', ast.Is: 'is not', ast.IsNot: 'is'}
CMPTXT = {ast.Lt: '<', ast.LtE: '<=', ast.Gt: '>', ast.GtE: '>=', ast.Eq: '==', ast.NotEq: '!=', ast.In: 'in',
          ast.NotIn: 'not in', ast.Is: 'is', ast.IsNot: 'is not'}


def seg(src_lines, n):
    return ast.get_source_segment('\n'.join(src_lines), n)


def mutants_of(path):
    src = open(path, encoding='utf-8').read()
    tree = ast.parse(src)
    lines = src.split('\n')
    out = []
    doc_ids = set()
    for n in ast.walk(tree):
        if isinstance(n, (ast.FunctionDef, ast.ClassDef, ast.Module)) and n.body and isinstance(n.body[0], ast.Expr) and \
                isinstance(n.body[0].value, ast.Constant) and isinstance(n.body[0].value.value, str):
            doc_ids.add(id(n.body[0].value))
    func_of = {}
    for f in ast.walk(tree):
        if isinstance(f, ast.FunctionDef):
            for x in ast.walk(f):
                func_of.setdefault(id(x), f.name)

    def edit(n, new, what):
        if n.lineno != n.end_lineno:
            return
        l = lines[n.lineno - 1]
        out.append({'line': n.lineno, 'col': n.col_offset, 'end': n.end_col_offset, 'new': new, 'what': what,
                    'func': func_of.get(id(n), '<module>'), 'old': l[n.col_offset:n.end_col_offset]})
    for n in ast.walk(tree):
        if isinstance(n, ast.Compare) and len(n.ops) == 1 and n.lineno == n.end_lineno:
            op = type(n.ops[0])
            if op in CMP:
                l = lines[n.lineno - 1]
                left_end = n.left.end_col_offset
                right_start = n.comparators[0].col_offset
                mid = l[left_end:right_start]
                if CMPTXT[op] in mid and n.left.end_lineno == n.lineno:
                    new = l[n.col_offset:left_end] + mid.replace(CMPTXT[op], CMP[op], 1) + l[right_start:n.end_col_offset]
                    edit(n, new, f'cmp {CMPTXT[op]} -> {CMP[op]}')
        if isinstance(n, ast.BoolOp) and n.lineno == n.end_lineno and len(n.values) == 2:
            l = lines[n.lineno - 1]
            a, b = n.values
            mid = l[a.end_col_offset:b.col_offset]
            old = ' and ' if isinstance(n.op, ast.And) else ' or '
            new = ' or ' if isinstance(n.op, ast.And) else ' and '
            if old in mid:
                edit(n, l[n.col_offset:a.end_col_offset] + mid.replace(old, new, 1) + l[b.col_offset:n.end_col_offset],
                     f'bool{old.strip()} ->{new.strip()}')
        if isinstance(n, ast.Constant) and type(n.value) is int and id(n) not in doc_ids and 0 <= n.value <= 1024:
            txt = lines[n.lineno - 1][n.col_offset:n.end_col_offset]
            if txt.isdigit():
                edit(n, str(n.value + 1), f'const {n.value} -> {n.value + 1}')
                if n.value > 0:
                    edit(n, str(n.value - 1), f'const {n.value} -> {n.value - 1}')
        if isinstance(n, ast.Constant) and n.value == b'\xff':
            edit(n, "b'\\x00'", 'true -> false byte')
        if isinstance(n, ast.Constant) and n.value == b'\x00':
            edit(n, "b'\\xff'", 'false -> true byte')
        if isinstance(n, ast.UnaryOp) and isinstance(n.op, ast.Not) and n.lineno == n.end_lineno:
            l = lines[n.lineno - 1]
            edit(n, '(' + l[n.operand.col_offset:n.operand.end_col_offset] + ')', 'not dropped')
        if isinstance(n, ast.BinOp) and isinstance(n.op, (ast.Add, ast.Sub)) and n.lineno == n.end_lineno:
            l = lines[n.lineno - 1]
            mid = l[n.left.end_col_offset:n.right.col_offset]
            old, new = ('+', '-') if isinstance(n.op, ast.Add) else ('-', '+')
            if mid.count(old) == 1:
                edit(n, l[n.col_offset:n.left.end_col_offset] + mid.replace(old, new) + l[n.right.col_offset:n.end_col_offset],
                     f'arith {old} -> {new}')
        if isinstance(n, ast.Expr) and isinstance(n.value, ast.Call) and n.lineno == n.end_lineno:
            edit(n, 'pass', 'statement deleted: ' + lines[n.lineno - 1].strip()[:50])
        if isinstance(n, ast.Call) and len(n.args) == 2 and not n.keywords and n.lineno == n.end_lineno and \
                isinstance(n.func, ast.Name) and n.func.id not in ('sert', 'vert', 'tert', 'yert', 'isinstance', 'range'):
            l = lines[n.lineno - 1]
            a, b = n.args
            if a.end_lineno == n.lineno and b.end_lineno == n.lineno:
                new = l[n.col_offset:a.col_offset] + l[b.col_offset:b.end_col_offset] + l[a.end_col_offset:b.col_offset] + \
                    l[a.col_offset:a.end_col_offset] + l[b.end_col_offset:n.end_col_offset]
                edit(n, new, 'call arguments swapped')
        if isinstance(n, ast.Assign) and n.lineno == n.end_lineno and isinstance(n.value, ast.Dict) and \
                any(k is None for k in n.value.keys) and len(n.value.keys) == 1:
            # {**x} -> x  (copy removed)
            l = lines[n.lineno - 1]
            v = n.value.values[0]
            edit(n.value, l[v.col_offset:v.end_col_offset], 'dict copy removed')
    for m in out:
        m['file'] = os.path.relpath(path, REPO)
    return out


def make_tree(m):
    d = tempfile.mkdtemp(prefix='ms.', dir='/dev/shm')
    subprocess.run(f'git -C {REPO} archive HEAD | tar -x -C {d}', shell=True, check=True)
    p = os.path.join(d, m['file'])
    lines = open(p, encoding='utf-8').read().split('\n')
    l = lines[m['line'] - 1]
    lines[m['line'] - 1] = l[:m['col']] + m['new'] + l[m['end']:]
    open(p, 'w', encoding='utf-8').write('\n'.join(lines))
    return d


def run_one(m):
    d = make_tree(m)
    try:
        try:
            ast.parse(open(os.path.join(d, m['file'])).read())
        except SyntaxError:
            m['status'] = 'syntax'
            return m
        desel = ' '.join(f'--deselect "{x}"' if '::' in x else f'-k "not {x}"' for x in DESELECT[:1])
        k = ' and '.join(f'not {x}' for x in DESELECT[1:])
        cmd = f'cd {d} && timeout 300 /venv/bin/python -m pytest -x -q -p no:cacheprovider -k "{k}" 2>&1 | tail -1'
        r = subprocess.run(cmd, shell=True, capture_output=True, text=True)
        tail = r.stdout.strip().split('\n')[-1] if r.stdout.strip() else ''
        m['tests'] = tail
        if ' passed' in tail and 'failed' not in tail and 'error' not in tail:
            m['status'] = 'survived'
            fired, errs = [], []
            ev = os.path.join(d, '_ev')
            os.makedirs(ev, exist_ok=True)
            env = dict(os.environ, TSA_REPO=d, TSA_EVIDENCE_DIR=ev)
            for p in PROPS:
                rr = subprocess.run(['/verif/check', p], capture_output=True, text=True, env=env)
                if rr.returncode == 1:
                    rules = sorted({ln.split('rule=')[1].split(' ')[0] for ln in rr.stdout.split('\n') if 'rule=' in ln})
                    fired.append((p, rules[:4]))
                elif rr.returncode != 0:
                    errs.append(p)
            m['fired'] = fired
            m['errors'] = errs
        else:
            m['status'] = 'killed'
        return m
    finally:
        shutil.rmtree(d, ignore_errors=True)


def main():
    ap = argparse.ArgumentParser()
    ap.add_argument('--n', type=int, default=200)
    ap.add_argument('--seed', type=int, default=1)
    ap.add_argument('--out', default='/dev/shm/mutsurvey.json')
    ap.add_argument('--files', default='functions.py,classes.py,parsing.py,tools.py')
    ap.add_argument('--jobs', type=int, default=14)
    ap.add_argument('--funcs', default='')
    a = ap.parse_args()
    allm = []
    for f in a.files.split(','):
        allm += mutants_of(os.path.join(REPO, 'tapescript', f))
    if a.funcs:
        want = set(a.funcs.split(','))
        allm = [m for m in allm if m['func'] in want]
    random.Random(a.seed).shuffle(allm)
    pick = allm[:a.n]
    print(f'{len(allm)} candidate mutants, running {len(pick)}', flush=True)
    with ThreadPoolExecutor(a.jobs) as ex:
        res = list(ex.map(run_one, pick))
    json.dump(res, open(a.out, 'w'), indent=1)
    surv = [m for m in res if m['status'] == 'survived']
    caught = [m for m in surv if m['fired']]
    err = [m for m in surv if not m['fired'] and m['errors']]
    silent = [m for m in surv if not m['fired'] and not m['errors']]
    print(f'killed by tests {sum(1 for m in res if m["status"] == "killed")}, syntax {sum(1 for m in res if m["status"] == "syntax")}, '
          f'survived {len(surv)}: reported {len(caught)}, analysis-error only {len(err)}, silent {len(silent)}')
    for m in silent:
        print(f'SILENT {m["file"]}:{m["line"]} {m["func"]}: {m["what"]}   `{m["old"]}` -> `{m["new"]}`')
    for m in err:
        print(f'ERRONLY {m["file"]}:{m["line"]} {m["func"]}: {m["what"]} {m["errors"]}')


if __name__ == '__main__':
    main()
