#!/usr/bin/env python3
"""Confirm a sub-agent's seeded change in a scratch worktree and run the checks against it.

usage: seed_eval.py <PROP> <diff> <demo.py> <seed-id> [--keep]
  1. scratch worktree of /repo HEAD under /tmp;  demo must PASS there
  2. apply the diff; the unedited suite must stay at baseline (267 passed, same 3 failed)
  3. demo must FAIL with the change
  4. run every registered quick check against the changed tree (TSA_REPO=scratch)
  5. worktree removed; with --keep and all confirmations, copy into /verif/seeded/<seed-id>/
"""
import json, os, re, shutil, subprocess, sys, tempfile

VERIF = os.path.dirname(os.path.dirname(os.path.abspath(__file__)))
PY = '/venv/bin/python'
BASE_FAIL = {'test_add_opcode_parsing_handlers_e2e', 'test_add_soft_fork_e2e', 'test_add_soft_fork_merklized_script_e2e'}


def sh(cmd, cwd=None, timeout=300, env=None):
    p = subprocess.run(cmd, shell=True, cwd=cwd, capture_output=True, text=True, timeout=timeout, env=env)
    out = '\n'.join(l for l in (p.stdout + p.stderr).split('\n') if 'conda.cli.condarc' not in l)
    return p.returncode, out


def main():
    prop, diff, demo, sid = sys.argv[1:5]
    keep = '--keep' in sys.argv
    wt = tempfile.mkdtemp(prefix='seedwt_', dir='/tmp')
    os.rmdir(wt)
    res = {'seed': sid, 'property': prop}
    try:
        rc, out = sh(f'git -C /repo worktree add -q --detach {wt} HEAD')
        if rc:
            print(out); return 2
        demo_src = open(demo).read()
        demo_src = re.sub(r"/tmp/w[t3-9]_[A-Z]\w*", wt, demo_src)
        dpath = os.path.join(wt, '_seed_demo.py')
        open(dpath, 'w').write(demo_src)
        rc, out = sh(f'timeout 120 {PY} {dpath}', cwd=wt)
        res['demo_clean_rc'] = rc
        res['demo_clean_tail'] = out.strip().split('\n')[-1][:200]
        rc, out = sh(f'git apply --whitespace=nowarn {os.path.abspath(diff)}', cwd=wt)
        res['apply_rc'] = rc
        if rc:
            res['apply_err'] = out[-300:]
            print(json.dumps(res, indent=1)); return 2
        rc, out = sh(f'{PY} -m pytest -q -p no:cacheprovider --timeout=900 -x -q 2>&1 | tail -8', cwd=wt, timeout=900)
        rc, out = sh(f'{PY} -m pytest -q -p no:cacheprovider --timeout=900 2>&1 | tail -8', cwd=wt, timeout=900)
        m = re.search(r'(\d+) failed, (\d+) passed', out)
        failed = set(re.findall(r'FAILED \S+::(\w+)', out))
        res['tests'] = m.group(0) if m else out.strip().split('\n')[-1][:100]
        res['tests_baseline'] = bool(m) and m.group(2) == '267' and failed == BASE_FAIL
        rc, out = sh(f'timeout 120 {PY} {dpath}', cwd=wt)
        res['demo_changed_rc'] = rc
        res['demo_changed_tail'] = out.strip().split('\n')[-1][:200]
        os.remove(dpath)
        # run the checks
        man = json.load(open(os.path.join(VERIF, 'MANIFEST.json')))
        props = [c['property_id'] for c in man['checks']]
        env = dict(os.environ, TSA_REPO=wt, TSA_EVIDENCE_DIR=os.path.join(wt, '_ev'))
        fired = {}
        for p in props:
            rc, out = sh(f'./check {p} --tier quick', cwd=VERIF, env=env)
            v = re.findall(r'rule=(\S+) at=(\S+)', out)
            errs = [l for l in out.split('\n') if l.startswith('ANALYSIS-ERROR')]
            if rc != 0:
                fired[p] = {'exit': rc, 'violations': [f'{r} {a}' for r, a in v][:6], 'errors': errs[:3]}
        res['checks_fired'] = fired
        res['detected_by_target'] = prop in fired and fired[prop]['exit'] == 1
        res['detected_by_any'] = any(f['exit'] == 1 for f in fired.values())
        res['confirmed'] = res['demo_clean_rc'] == 0 and res['tests_baseline'] and res['demo_changed_rc'] != 0
        print(json.dumps(res, indent=1))
        if keep and res['confirmed']:
            d = os.path.join(VERIF, 'seeded', sid)
            os.makedirs(d, exist_ok=True)
            shutil.copy(diff, os.path.join(d, 'patch.diff'))
            shutil.copy(demo, os.path.join(d, 'demo.py'))
            meta = {'id': sid, 'breaks_property': prop, 'source': 'sub-agent given only the property text and a scratch worktree',
                    'confirmed': {'demo_on_clean_tree': 'PASS (exit 0)', 'tests_with_change': res['tests'],
                                  'demo_with_change': f'FAIL (exit {res["demo_changed_rc"]}): {res["demo_changed_tail"]}'},
                    'what_i_ran': 'tools/seed_eval.py: scratch worktree of /repo HEAD, demo, git apply, pytest, demo, every registered quick check with TSA_REPO=<worktree>',
                    'checks_fired': fired, 'detected_by_target_check': res['detected_by_target'],
                    'detected_by_any_check': res['detected_by_any']}
            json.dump(meta, open(os.path.join(d, 'meta.json'), 'w'), indent=1)
        return 0
    finally:
        sh(f'git -C /repo worktree remove --force {wt}')
        shutil.rmtree(wt, ignore_errors=True)


if __name__ == '__main__':
    sys.exit(main())
