#!/bin/sh
# usage: tools/try_patch.sh <patch.diff> PROP [PROP...]   -- run quick checks against a scratch copy of /repo with the patch applied
patch=$1; shift
d=$(mktemp -d /dev/shm/tp.XXXXXX)
mkdir -p $d/repo $d/ev
git -C /repo archive HEAD | tar -x -C $d/repo
(cd $d/repo && patch -s -p1 < "$patch")
for p in "$@"; do
  TSA_REPO=$d/repo TSA_EVIDENCE_DIR=$d/ev /verif/check $p 2>&1 | grep -v conda | grep "VIOLATION\|ANALYSIS-ERROR\|rule=\|: exit\|KNOWN" | cut -c1-400
done
rm -rf $d
